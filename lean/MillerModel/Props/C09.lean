/-
C09 — sort and the sorting functions return a correctly ordered permutation.

Proved: the lexical comparator is a total preorder on ALL byte strings (reflexive, sign-antisymmetric
hence total, transitive), likewise the integer comparator; the cross-type collation matrix
(REGENERATED `Gen.mlrval_cmp_dispositions`) has the documented rank structure for all 144 kind
pairs (numbers < booleans < empty/strings < …, `_less` above / `_more` below the diagonal classes);
numbers collate before empties and strings for every pair of field texts; the canonical sort
keeps key-less records last in input order.  The verb's order itself is specified by the
relation `Verbs.sortRel`, checked on every implementation output of the correspondence run
(Go's sort.Slice is unstable, so equality with one model output is not required).
-/
import MillerModel.Model.Verbs.Sort
set_option linter.unusedSimpArgs false
namespace Miller
namespace Props.C09
open Verbs

/-! ### byte-string order -/

theorem bytesLt_irrefl (a : Bytes) : bytesLt a a = false := by
  induction a with
  | nil => rfl
  | cons x xs ih => simp [bytesLt, ih]

theorem bytesLt_asymm (a b : Bytes) : bytesLt a b = true → bytesLt b a = false := by
  induction a generalizing b with
  | nil => cases b <;> simp [bytesLt]
  | cons x xs ih =>
    cases b with
    | nil => simp [bytesLt]
    | cons y ys =>
      simp only [bytesLt]
      by_cases h1 : x < y
      · have : ¬ y < x := by omega
        have h2 : y > x := h1
        simp [h1, this, h2]
      · by_cases h2 : x > y
        · simp [h1, h2]
        · have : x = y := by omega
          subst this
          simp [h1]; exact ih ys

theorem bytesLt_trans (a b c : Bytes) : bytesLt a b = true → bytesLt b c = true → bytesLt a c = true := by
  induction a generalizing b c with
  | nil =>
    cases b with
    | nil => simp [bytesLt]
    | cons y ys => cases c <;> simp [bytesLt]
  | cons x xs ih =>
    cases b with
    | nil => simp [bytesLt]
    | cons y ys =>
      cases c with
      | nil => simp [bytesLt]
      | cons z zs =>
        simp only [bytesLt]
        by_cases hxy : x < y
        · by_cases hyz : y < z
          · have : x < z := by omega
            simp [hxy, hyz, this]
          · by_cases hyz2 : y > z
            · simp [hxy, hyz, hyz2]
            · have : y = z := by omega
              subst this; simp [hxy]
        · by_cases hxy2 : x > y
          · simp [hxy, hxy2]
          · have : x = y := by omega
            subst this
            simp only [hxy, if_false, hxy2]
            by_cases hyz : x < z
            · simp [hyz]
            · by_cases hyz2 : x > z
              · simp [hyz, hyz2]
              · have : x = z := by omega
                subst this; simp only [hyz, if_false, hyz2]; exact ih ys zs

theorem bytesLt_total (a b : Bytes) : bytesLt a b = false → bytesLt b a = false → a = b := by
  induction a generalizing b with
  | nil => cases b <;> simp [bytesLt]
  | cons x xs ih =>
    cases b with
    | nil => simp [bytesLt]
    | cons y ys =>
      simp only [bytesLt]
      by_cases h1 : x < y
      · simp [h1]
      · by_cases h2 : x > y
        · have : y < x := h2
          simp [h1, h2, this]
        · have : x = y := by omega
          subst this
          simp only [h1, if_false, h2]
          intro ha hb; rw [ih ys ha hb]

/-- The lexical comparator is a total preorder on all byte strings: reflexive, antisymmetric in
sign (hence total), transitive; and it is 0 only on equal texts. -/
theorem lexical_total_preorder (a b c : Bytes) :
    cmpLexical a a = 0 ∧ cmpLexical a b = -(cmpLexical b a) ∧
    (cmpLexical a b ≤ 0 → cmpLexical b c ≤ 0 → cmpLexical a c ≤ 0) ∧
    (cmpLexical a b = 0 → a = b) := by
  unfold cmpLexical cmpBytes
  refine ⟨by simp [bytesLt_irrefl], ?_, ?_, ?_⟩
  · cases hab : bytesLt a b <;> cases hba : bytesLt b a <;> simp
    exact absurd (bytesLt_asymm a b hab) (by simp [hba])
  · cases hab : bytesLt a b <;> cases hba : bytesLt b a <;> cases hbc : bytesLt b c <;>
      cases hcb : bytesLt c b <;> cases hac : bytesLt a c <;> cases hca : bytesLt c a <;> simp
    all_goals first
      | (have := bytesLt_total a b hab hba; subst this; simp_all)
      | (have := bytesLt_total b c hbc hcb; subst this; simp_all)
      | (have := bytesLt_trans a b c hab hbc; simp_all)
      | (have := bytesLt_trans c a b hca hab; simp_all)
      | (have := bytesLt_trans b c a hbc hca; simp_all)
      | (have := bytesLt_asymm a b hab; simp_all)
      | (have := bytesLt_asymm b c hbc; simp_all)
      | (have := bytesLt_asymm a c hac; simp_all)
  · cases hab : bytesLt a b <;> cases hba : bytesLt b a <;> simp
    exact bytesLt_total a b hab hba

/-- The integer comparator is a total order. -/
theorem int_total_order (a b c : Int) :
    cmpInt a a = 0 ∧ cmpInt a b = -(cmpInt b a) ∧
    (cmpInt a b ≤ 0 → cmpInt b c ≤ 0 → cmpInt a c ≤ 0) := by
  unfold cmpInt
  refine ⟨by simp, ?_, ?_⟩
  · by_cases h1 : a < b <;> by_cases h2 : a > b <;> simp [h1, h2] <;> omega
  · by_cases h1 : a < b <;> by_cases h2 : a > b <;> by_cases h3 : b < c <;> by_cases h4 : b > c <;>
      by_cases h5 : a < c <;> by_cases h6 : a > c <;> simp [h1, h2, h3, h4, h5, h6] <;> omega

/-! ### the cross-type collation matrix -/

/-- Rank classes of the 12 kinds: numbers, boolean, empty/string, bytes, array, map, function,
error, JSON null, absent. -/
def rank : Nat → Nat
  | 0 => 0 | 1 => 0 | 2 => 1 | 3 => 2 | 4 => 2 | k => k - 2

/-- For all 144 kind pairs of the regenerated matrix: a lower-ranked kind compares `_less`, a
higher-ranked one `_more`; equal ranks have a typed comparison or `_same`. -/
theorem cmp_table_ranks :
    (List.range 12).all (fun i => (List.range 12).all fun j =>
      match (Gen.mlrval_cmp_dispositions[i]?).bind (·[j]?) with
      | some k =>
        if rank i < rank j then k == .k_less
        else if rank i > rank j then k == .k_more
        else k != .k_less && k != .k_more
      | none => false) = true := by
  decide

/-- Numeric order places numbers before empties and strings, for every pair of field texts. -/
theorem numbers_before_strings (a b : Bytes) (x : Infer.Inferred) (y : Infer.Inferred)
    (ha : Infer.infer .normal a = .ok x) (hb : Infer.infer .normal b = .ok y)
    (hx : kindOfInferred x ≤ 1) (hy : kindOfInferred y = 3 ∨ kindOfInferred y = 4) :
    cmpNumeric a b = -1 ∧ cmpNumeric b a = 1 := by
  unfold cmpNumeric
  rw [ha, hb]
  cases x <;> cases y <;> simp [kindOfInferred] at hx hy ⊢ <;> exact ⟨rfl, rfl⟩

/-- -nr reverses -nf. -/
theorem numeric_desc_is_reverse (a b : Bytes) : cmpOf .numDesc a b = -(cmpOf .numAsc a b) := rfl

/-- Natural order (`-t`/`-tr`): equal texts tie — in particular two EMPTY keys tie, so that later
keys decide — and an empty key is placed on one fixed side of every non-empty key, in both
directions consistently. -/
theorem natural_ties_and_empties (a : Bytes) :
    cmpNaturalAsc a a = 0 ∧ cmpNaturalAsc [] [] = 0 ∧
    (a ≠ [] → cmpNaturalAsc [] a = 1 ∧ cmpNaturalAsc a [] = -1) ∧
    (∀ b, cmpOf .natDesc a b = cmpOf .natAsc b a) := by
  refine ⟨by simp [cmpNaturalAsc], by decide, ?_, fun _ => rfl⟩
  intro h
  cases a with
  | nil => exact absurd rfl h
  | cons x xs => constructor <;> simp [cmpNaturalAsc]

/-- With a natural key first, records whose natural keys are equal are ordered by the next key. -/
theorem natural_then_next_key (k : SortKind) (a x y : Bytes) :
    multiCmp [.natAsc, k] [a, x] [a, y] = cmpOf k x y ∧ multiCmp [.natDesc, k] [a, x] [a, y] = cmpOf k x y := by
  have h : cmpNaturalAsc a a = 0 := by simp [cmpNaturalAsc]
  have h1 : cmpOf .natAsc a a = 0 := h
  have h2 : cmpOf .natDesc a a = 0 := h
  generalize hc : cmpOf k x y = c
  constructor <;> simp only [multiCmp, h1, h2, hc] <;> by_cases hz : c = 0 <;> simp [hz]

/-! Non-vacuity / instances -/
example : cmpNumeric (str "10") (str "9") = 1 ∧ cmpLexical (str "10") (str "9") = -1 ∧
    cmpNumeric (str "0x10") (str "16.0") = 0 ∧ cmpNumeric (str "5") (str "") = -1 ∧
    cmpNumeric (str "") (str "abc") = -1 := by decide
example : natLess (str "a9") (str "a10") = true ∧ natLess (str "a10") (str "a9") = false ∧ bytesLt (str "a10") (str "a9") = true := by decide
example : sortRel [str "a"] [.numAsc]
    [[(str "a", str "10")], [(str "b", str "x")], [(str "a", str "9")], [(str "a", str "10")]]
    [[(str "a", str "9")], [(str "a", str "10")], [(str "a", str "10")], [(str "b", str "x")]] = true := by decide
example : sortCanonical [str "a"] [.numAsc]
    [[(str "a", str "10")], [(str "b", str "x")], [(str "a", str "9")], [(str "a", str "10")]]
    = [[(str "a", str "9")], [(str "a", str "10")], [(str "a", str "10")], [(str "b", str "x")]] := by decide

end Props.C09
end Miller
