/-
C08 — Absent and empty values obey the documented null-data algebra.

The operand-kind matrix IS the quantifier: every theorem below is a `decide` over the whole
REGENERATED table set (`Gen/Disp.lean`, 12×12 cells per operator) read through the REGENERATED
body classification of each cell function (`Gen/KernelSigs.lean`).
-/
import MillerModel.Spec.NullData
import MillerModel.Gen.Facts
import MillerModel.Lemmas.C08
namespace Miller
namespace Props.C08
open Gen Disp Spec.NullData Lemmas.C08

/-- Operators for which absent is a two-sided identity on ints and floats. -/
def accumulatingNum : List (List (List K)) :=
  [bifs_plus_dispositions, bifs_minus_dispositions, bifs_times_dispositions,
   bifs_dot_plus_dispositions, bifs_dotminus_dispositions, bifs_dottimes_dispositions,
   bifs_dotdivide_dispositions, bifs_min_dispositions, bifs_max_dispositions]

/-- Division-like operators (`/ // ** %`). -/
def divisionLike : List (List (List K)) :=
  [bifs_divide_dispositions, bifs_int_divide_dispositions, bifs_pow_dispositions, bifs_modulus_dispositions]

/-- Bitwise operators and shifts (ints only). -/
def bitwise : List (List (List K)) :=
  [bifs_bitwise_and_dispositions, bifs_bitwise_or_dispositions, bifs_bitwise_xor_dispositions,
   bifs_left_shift_dispositions, bifs_signed_right_shift_dispositions, bifs_unsigned_right_shift_dispositions]

/-- FULL STATEMENT: absent is the identity of accumulation for every arithmetic, dot, bitwise,
min and max operator: `absent op x = x`, `x op absent = x` (x int or float; int for bitwise),
`absent op absent = absent`. -/
def C08_absent_identity : Prop :=
  (∀ t ∈ accumulatingNum ++ divisionLike, absentIdentityAt t 0 = true ∧ absentIdentityAt t 1 = true) ∧
  (∀ t ∈ bitwise, absentIdentityAt t 0 = true) ∧
  (∀ t ∈ accumulatingNum ++ divisionLike ++ bitwise, absentAbsent t = true)

/-- Proved part: the identity laws for `+ - * .+ .- .* ./ min max` (int and float), the bitwise
operators and shifts (int), `absent op absent = absent` for all of them and the division-like
operators, and `x op absent = x` for `/ // ** %`. -/
theorem absent_identity_partial :
    (∀ t ∈ accumulatingNum, absentIdentityAt t 0 = true ∧ absentIdentityAt t 1 = true) ∧
    (∀ t ∈ bitwise, absentIdentityAt t 0 = true) ∧
    (∀ t ∈ accumulatingNum ++ divisionLike ++ bitwise, absentAbsent t = true) ∧
    (∀ t ∈ divisionLike, cellRet t 0 11 = some .in1 ∧ cellRet t 1 11 = some .in1) := by
  decide

/-- The code violates the full statement exactly for an absent LEFT operand of `/ // ** %`:
`absent / x` is 0 (cells `_i0__`/`_f0__`), not `x`  (finding absent-dividend). -/
theorem C08_absent_identity_counterexample : ¬ C08_absent_identity := by
  intro h
  have := (h.1 bifs_divide_dispositions (by decide)).1
  revert this; decide

/-- The math-library functions of an absent argument return absent. -/
theorem mathlib_absent :
    cell1 bifs_mudispo 11 = some .k_math_unary_absn1 ∧ (kernelSig .k_math_unary_absn1).ret = .absent ∧
    cell1 bifs_imudispo 11 = some .k_math_unary_absn1 := by decide

/-- Empty rules as tabulated in the null-data reference: empty with a number yields the number
for `+ * .+ .*` and `min`; `empty - x` is `-x` and `x - empty` is `x`; `max` keeps the empty
(numbers sort before empty); empty with empty is empty; for `/ // ** % ./` and the bitwise
operators empty with a number is empty. -/
theorem empty_rules :
    (∀ t ∈ [bifs_plus_dispositions, bifs_times_dispositions, bifs_dot_plus_dispositions, bifs_dottimes_dispositions, bifs_min_dispositions],
       ∀ k ∈ [0, 1], cellRet t 3 k = some .in2 ∧ cellRet t k 3 = some .in1) ∧
    (∀ t ∈ [bifs_minus_dispositions, bifs_dotminus_dispositions],
       ∀ k ∈ [0, 1], cellRet t 3 k = some .neg2 ∧ cellRet t k 3 = some .in1) ∧
    (∀ k ∈ [0, 1], cellRet bifs_max_dispositions 3 k = some .in1 ∧ cellRet bifs_max_dispositions k 3 = some .in2) ∧
    (∀ t ∈ divisionLike ++ bitwise ++ [bifs_dotdivide_dispositions],
       ∀ k ∈ [0, 1], cellRet t 3 k = some .void ∧ cellRet t k 3 = some .void) ∧
    (∀ t ∈ accumulatingNum ++ divisionLike ++ bitwise, cellRet t 3 3 = some .void) := by
  decide

/-- An error operand combined with any scalar (int, float, boolean, empty, string, error) yields
an error, in both positions, for every arithmetic, dot, bitwise, min and max operator. -/
theorem error_absorbs :
    ∀ t ∈ accumulatingNum ++ divisionLike ++ bitwise,
      ∀ k ∈ [0, 1, 2, 3, 4, 9], cellRet t 9 k = some .error ∧ cellRet t k 9 = some .error := by
  decide

/-- Commutative operators give the same result kind for `(a,b)` and `(b,a)` over all 144
operand-kind pairs. -/
theorem commutative_kinds :
    ∀ t ∈ [bifs_plus_dispositions, bifs_times_dispositions, bifs_dot_plus_dispositions, bifs_dottimes_dispositions,
           bifs_bitwise_and_dispositions, bifs_bitwise_or_dispositions, bifs_bitwise_xor_dispositions,
           bifs_min_dispositions, bifs_max_dispositions, bifs_eq_dispositions, bifs_ne_dispositions],
      commutativeOn t U = true := by
  decide

def acqKindOk : Acq → Nat → Bool
  | .int, 0 => true | .float, 1 => true | .bool, 2 => true
  | .string, 3 => true | .string, 4 => true | .bytes, 5 => true | .array, 6 => true | .map, 7 => true
  | _, _ => false

/-- No cell of any binary or unary table is nil, and no kernel is routed a kind on which its
unchecked type assertion would panic (all tables, all kinds; shared with C18). -/
theorem cells_kind_safe :
    (Gen.binaryTables.all fun p => kinds.all fun i => kinds.all fun j =>
      match cell2 p.2 i j with
      | none => false
      | some k => (kernelSig k).acq1.all (acqKindOk · i) && (kernelSig k).acq2.all (acqKindOk · j)) = true ∧
    (Gen.unaryTables.all fun p => kinds.all fun i =>
      match cell1 p.2 i with
      | none => false
      | some k => (kernelSig k).acq1.all (acqKindOk · i)) = true := by
  decide

/-- Skip-assignment-if-absent: every place where the DSL interpreter hands a value to an
lvalue's `Assign`/`AssignIndexed` (field, positional, `$*`, oosvar, `@*`, local, indexed, ENV —
they all go through the same interface) is inside `if !rvalue.IsAbsent()`; fact regenerated from
pkg/dsl/cst on every run.  The dynamic counterpart (no key is created, for every lvalue kind) is
the T3 part of the check. -/
theorem assign_absent_guarded :
    Gen.assignCallSites ≠ [] ∧ Gen.assignCallSites.all (fun p => p.2) = true := by decide


/-! ### The variadic `min`/`max` (model `Disp.variadic`: left fold of the regenerated binary table
over the arguments, each first sent through the regenerated unary vector, starting from the first
argument; the fold shape is tied to `BIF_min_variadic`/`BIF_max_variadic` by the `nary8`
correspondence). These are statements about VALUES (all payloads), not just kinds. -/

/-- Two-argument variadic `max`/`min` give the same result kind in either argument order, for all
144 operand-kind pairs and every payload.  (For an array or map operand the unary reduction is
outside the model and both sides are `unmodelled`; those pairs are covered by the correspondence.) -/
theorem variadic_pair_kinds_commute (a b : Val) :
    clsV (vmax [a, b]) = clsV (vmax [b, a]) ∧ clsV (vmin [a, b]) = clsV (vmin [b, a]) := by
  cases a <;> cases b <;> exact ⟨rfl, rfl⟩

/-- Absent arguments are the identity of the variadic `max`/`min` on the ordered kinds, and a
lone argument keeps its kind. -/
theorem variadic_absent_ignored (a : Val) (h : ordered a = true) :
    vmax [.absent, a] = .val a ∧ vmin [.absent, a] = .val a ∧
    clsV (vmax [a, .absent]) = clsV (.val a) ∧ clsV (vmin [a, .absent]) = clsV (.val a) ∧
    clsV (vmax [a]) = clsV (.val a) ∧ clsV (vmin [a]) = clsV (.val a) := by
  cases a <;> first | exact ⟨rfl, rfl, rfl, rfl, rfl, rfl⟩ | simp [ordered] at h

/-- No arguments: empty. A lone JSON null stays null; absent stays absent. -/
theorem variadic_degenerate :
    vmax [] = .val .void ∧ vmin [] = .val .void ∧ vmax [.null] = .val .null ∧ vmin [.null] = .val .null ∧
    vmax [.absent] = .val .absent ∧ vmin [.absent] = .val .absent ∧
    vmax [.absent, .absent] = .val .absent ∧ vmin [.absent, .absent] = .val .absent := by decide

/-- The variadic `max` of a non-empty list of ints is an int, a member of the list, and an upper
bound of the list — for lists of every length. -/
theorem vmax_ints_is_maximum (v : Int) (vs : List Int) :
    ∃ n, vmax ((v :: vs).map Val.int) = .val (.int n) ∧ n ∈ v :: vs ∧ ∀ m ∈ v :: vs, m ≤ n := by
  refine ⟨_, vmax_ints v vs, ?_, ?_⟩
  · have := (foldl_imax v (v :: vs)).2.2
    rcases this with h | h
    · rw [h]; simp
    · exact h
  · exact (foldl_imax v (v :: vs)).2.1
/-! Non-vacuity: the predicates are not trivially true — they fail on a table they should fail on. -/
example : ordered (.int 3) = true ∧ vmax [.int 3, .int 7, .int (-2)] = .val (.int 7) := by decide
example : absentIdentityAt bifs_divide_dispositions 0 = false := by decide
example : commutativeOn bifs_dot_dispositions U = false := by decide
example : cellRet bifs_plus_dispositions 11 0 = some .in2 ∧ cellRet bifs_plus_dispositions 0 11 = some .in1 := by decide

end Props.C08
end Miller
