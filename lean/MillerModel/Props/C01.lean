/-
C01 — Every file format round-trips its own output and speaks the standard dialect.

Proved here (all inputs, no bound): the TSV escape codec, the CSV field / record / stream round
trip through the model of the forked encoding/csv reader state machine, and the separator
split/join law used by the line-oriented formats.  The models (Model/Formats/*) are tied to the
real readers and writers by the in-process correspondence `rt`/`rd` (same bytes, same records).
Formats without a Lean model (JSON, XTAB, PPRINT, NIDX, markdown, YAML, DKVPX, csvlite) are covered
by the round-trip spec predicate on the implementation only (stated in the evidence).
-/
import MillerModel.Lemmas.C01
namespace Miller
namespace Props.C01
open Lemmas.C01

/-- TSV: decoding an encoded field gives the field back, for every byte string. -/
theorem tsv_decode_encode (s : Bytes) : Tsv.decode (Tsv.encode s) = s :=
  Lemmas.C01.tsv_decode_encode s

/-- TSV: encoded text never contains a raw TAB, LF or CR, so fields and lines split
unambiguously. -/
theorem tsv_encode_no_sep (s : Bytes) : 9 ∉ Tsv.encode s ∧ 10 ∉ Tsv.encode s ∧ 13 ∉ Tsv.encode s :=
  Lemmas.C01.tsv_encode_no_sep s

/-- TSV line: splitting the TAB-join of encoded fields and decoding gives the fields back
(any number ≥ 1 of fields, any bytes). -/
theorem tsv_line_roundtrip (fields : List Bytes) (hne : fields ≠ []) :
    (Split.splitByte 9 (Split.join [9] (fields.map Tsv.encode)) []).map Tsv.decode = fields := by
  have hfree : ∀ x ∈ fields.map Tsv.encode, 9 ∉ x := by
    intro x hx; obtain ⟨f, _, rfl⟩ := List.mem_map.mp hx; exact (Lemmas.C01.tsv_encode_no_sep f).1
  have hne' : fields.map Tsv.encode ≠ [] := by simpa using hne
  rw [splitByte_join 9 _ hne' hfree []]
  cases fields with
  | nil => exact absurd rfl hne
  | cons f fs =>
    simp only [List.map, List.head_cons, List.tail_cons, List.nil_append, Lemmas.C01.tsv_decode_encode]
    congr 1
    clear hfree hne' hne
    induction fs with
    | nil => rfl
    | cons g gs ih => simp only [List.map, Lemmas.C01.tsv_decode_encode, ih]

/-- CSV field: for EVERY byte string `f` (separators, quotes, CR, LF, anything), every legal
separator and with or without --quote-all, the reader's field scanner recovers exactly `f` from
the writer's rendering, whether a separator or a line end follows. -/
theorem csv_field_roundtrip (comma : Nat) (g : GoodComma comma) (quoteAll : Bool) (f rest : Bytes) :
    Csv.scanField comma (Csv.writeField comma quoteAll false f ++ comma :: rest) = .ok ⟨f, false, rest⟩ ∧
    Csv.scanField comma (Csv.writeField comma quoteAll false f ++ 10 :: rest) = .ok ⟨f, true, rest⟩ :=
  ⟨field_roundtrip_comma comma g quoteAll f rest, field_roundtrip_lf comma g quoteAll f rest⟩

/-- CSV record: a written line scans back to exactly its fields (any count ≥ 1). -/
theorem csv_record_roundtrip (comma : Nat) (g : GoodComma comma) (quoteAll : Bool)
    (fields : List Bytes) (hne : fields ≠ []) (rest : Bytes) :
    Csv.scanRecord comma (fields.length) (lineText comma quoteAll fields ++ rest) [] = .ok (fields, rest) := by
  have := scanRecord_line comma g quoteAll fields hne rest [] fields.length (Nat.le_refl _)
  simpa [lineText] using this

/-- The representable domain used by `csv_roundtrip` (LF mode, header on): a non-empty rectangular
stream over a non-empty list of pairwise distinct keys whose first key does not begin with the
UTF-8 byte-order mark's first byte, and cells free of CR.  (CR not followed by LF is also
representable; that part of the domain is covered by correspondence only.) -/
structure CsvRepr (keys : List Bytes) (rs : List Rec) : Prop where
  nonempty : rs ≠ []
  keysNonempty : keys ≠ []
  rect : ∀ r ∈ rs, r.keys = keys
  nodup : keys.Nodup
  crfreeKeys : ∀ k ∈ keys, 13 ∉ k
  crfreeVals : ∀ r ∈ rs, ∀ v ∈ r.vals, 13 ∉ v
  noBom : ∀ k rest, keys = k :: rest → k.head? ≠ some 0xEF

/-- CSV STREAM ROUND TRIP: on the representable domain, reading what the writer wrote yields the
same records — same names, same order, same value bytes — for every legal separator, with or
without --quote-all. -/
theorem csv_roundtrip (wo : Csv.WOpts) (ro : Csv.ROpts) (g : GoodComma wo.comma)
    (hc : ro.comma = wo.comma) (hlf : wo.crlf = false) (hh : wo.headerless = false)
    (hi : ro.implicitHeader = false)
    (keys : List Bytes) (rs : List Rec) (H : CsvRepr keys rs) :
    ∃ text, Csv.write wo rs = .ok text ∧ Csv.read ro text = .ok rs := by
  refine ⟨_, write_rect wo hlf hh keys rs H.nonempty H.rect, ?_⟩
  -- the text is CR-free and does not start with a BOM, so normalisation is the identity
  have hrows : ∀ row ∈ keys :: rs.map Rec.vals, ∀ f ∈ row, 13 ∉ f := by
    intro row hrow f hf
    simp only [List.mem_cons, List.mem_map] at hrow
    rcases hrow with rfl | ⟨r, hr, rfl⟩
    · exact H.crfreeKeys f hf
    · exact H.crfreeVals r hr f hf
  have hcr : 13 ∉ ((keys :: rs.map Rec.vals).map (lineText wo.comma wo.quoteAll)).flatten := by
    intro hm
    obtain ⟨l, hl, hx⟩ := List.mem_flatten.mp hm
    obtain ⟨row, hrow, rfl⟩ := List.mem_map.mp hl
    exact lineText_crfree wo.comma g wo.quoteAll row (hrows row hrow) hx
  have hbom : Csv.stripBOM (((keys :: rs.map Rec.vals).map (lineText wo.comma wo.quoteAll)).flatten)
      = ((keys :: rs.map Rec.vals).map (lineText wo.comma wo.quoteAll)).flatten := by
    obtain ⟨k, krest, hk⟩ := List.exists_cons_of_ne_nil H.keysNonempty
    have hnb := H.noBom k krest hk
    subst hk
    apply stripBOM_id
    simp only [List.map, List.flatten_cons]
    have ha := g.ascii
    rcases head_lineText wo.comma wo.quoteAll k krest
      ((rs.map Rec.vals).map (lineText wo.comma wo.quoteAll)).flatten with h | h | h | h
    · rw [h]; simp
    · rw [h]; simp; omega
    · rw [h]; simp
    · rw [h]; exact hnb
  unfold Csv.read
  rw [hbom]
  unfold Csv.normalise
  rw [normalise_crfree _ hcr true, hc]
  simp only
  rw [scanAll_lines wo.comma g wo.quoteAll (keys :: rs.map Rec.vals)
        (by intro r hr
            simp only [List.mem_cons, List.mem_map] at hr
            rcases hr with rfl | ⟨x, hx, rfl⟩
            · exact H.keysNonempty
            · have := H.rect x hx
              intro hnil
              have : x.keys.length = 0 := by simp [Rec.keys, Rec.vals] at hnil ⊢; exact hnil
              rw [H.rect x hx] at this
              exact H.keysNonempty (List.length_eq_zero_iff.mp this))
        [] _ (rows_le_text wo.comma wo.quoteAll _)]
  simp only [List.nil_append, Csv.toRecords, hi, Bool.false_eq_true, if_false]
  rw [toRecords_rect ro keys rs [] H.rect H.nodup]
  simp

end Props.C01
end Miller

namespace Miller
namespace Props.C01
open Lemmas.C01

/-! Non-vacuity: the hypotheses of `csv_roundtrip` are met by a stream full of separators, quotes
and line ends, and the theorem's conclusion is what evaluation gives. -/
def sampleKeys : List Bytes := [str "a,b", str "q\"", str ""]
def sampleRecs : List Rec :=
  [[(str "a,b", str "x\ny"), (str "q\"", str "\"\""), (str "", str "")],
   [(str "a,b", str ","), (str "q\"", str "\\."), (str "", str " z")]]

example : GoodComma 44 := ⟨by decide, by decide, by decide, by decide⟩
example : CsvRepr sampleKeys sampleRecs :=
  ⟨by decide, by decide, by decide, by decide, by decide, by decide,
   fun k rest h => by simp only [sampleKeys, List.cons.injEq] at h; obtain ⟨rfl, _⟩ := h; decide⟩
example : (Csv.write {} sampleRecs).toOption.bind (fun t => (Csv.read {} t).toOption) = some sampleRecs := by decide

end Props.C01
end Miller
