/-
C04 — Output is independent of batching and scheduling, and every run terminates.

What a theorem can carry here is the LOGIC of batching: every verb is a state machine fed batch
after batch, and the records it forwards do not depend on where the batch boundaries fall; chains
compose; an early-exit verb gives the same output on any prefix that contains what it needs.  The
behaviour that lives in the Go runtime (goroutine interleavings, channel capacities, the
done-signal relay, termination of the goroutine network, flushing while the input is still open)
cannot be exhibited by a Lean model: it is the T3 part of the check (the real binary under seeded
scheduling perturbation at the lib.VerifPoint hook points, batch sizes, GOMAXPROCS, timeouts).
-/
import MillerModel.Model.Pipeline
import MillerModel.Model.Verbs.Select
import MillerModel.Lemmas.C11
namespace Miller
namespace Props.C04
open Verbs Pipeline

theorem fold_step_eq {σ} (m : Machine σ) (b : List Rec) (s : σ) (acc : List Rec) (rest : List Rec) :
    let st := b.foldl (fun (a : σ × List Rec) r => let (s', out) := m.step a.1 r; (s', a.2 ++ out)) (s, acc)
    acc ++ m.runFrom s (b ++ rest) = st.2 ++ m.runFrom st.1 rest := by
  induction b generalizing s acc with
  | nil => simp
  | cons r b ih =>
    simp only [List.foldl_cons, List.cons_append, Machine.runFrom]
    have := ih (m.step s r).1 (acc ++ (m.step s r).2)
    simp only [List.append_assoc] at this ⊢
    exact this

theorem stageFrom_flatten {σ} (m : Machine σ) (s : σ) (bs : List (List Rec)) :
    (stageFrom m s bs).flatten = m.runFrom s bs.flatten := by
  induction bs generalizing s with
  | nil => simp [stageFrom, Machine.runFrom]
  | cons b bs ih =>
    simp only [stageFrom, List.flatten_cons]
    rw [ih]
    have := fold_step_eq m b s [] bs.flatten
    simp only [List.nil_append] at this
    exact this.symm

/-- BATCHING INDEPENDENCE (one verb): however the input is cut into batches — any number of
batches of any sizes, empty ones included — the records a verb forwards, read in order, are the
records it produces on the whole input. -/
theorem stage_independent_of_batching {σ} (m : Machine σ) (bs : List (List Rec)) :
    (stage m bs).flatten = m.run bs.flatten :=
  stageFrom_flatten m m.init bs

/-- BATCHING INDEPENDENCE (whole chain): for every `then` chain and every cutting of the input
into batches, the batch-wise pipeline delivers to the writer, in order, exactly the records of
running each verb on the whole output of the previous one. Nothing is lost, duplicated or
reordered by the batching. -/
theorem chain_independent_of_batching (ms : List AnyMachine) (bs : List (List Rec)) :
    (chainBatched ms bs).flatten = chainRun ms bs.flatten := by
  unfold chainBatched chainRun
  induction ms generalizing bs with
  | nil => rfl
  | cons am ms ih =>
    simp only [List.foldl_cons]
    rw [ih (stage am.m bs), stage_independent_of_batching]

/-- Two cuttings of the same input give the same output. -/
theorem same_output_for_any_two_batchings (ms : List AnyMachine) (bs cs : List (List Rec))
    (h : bs.flatten = cs.flatten) : (chainBatched ms bs).flatten = (chainBatched ms cs).flatten := by
  rw [chain_independent_of_batching, chain_independent_of_batching, h]

/-- EARLY EXIT: `head -n k` needs only the first k records — its output is the same on any
prefix of the input that contains them, which is why the reader may stop early when `head`
signals that it is done. -/
theorem head_output_needs_only_a_prefix (n k : Nat) (xs : List Rec) (hk : n ≤ k) :
    (headUnkeyed n).run (xs.take k) = (headUnkeyed n).run xs := by
  unfold Machine.run
  have h0 : (headUnkeyed n).init = 0 := rfl
  rw [h0, Lemmas.C11.headUnkeyed_runFrom, Lemmas.C11.headUnkeyed_runFrom]
  simp only [Nat.sub_zero, List.take_take]
  congr 1
  omega

/-! Non-vacuity -/
example : (chainBatched [⟨_, headUnkeyed 2⟩, ⟨_, tac⟩] [[[(str "a", str "1")]], [], [[(str "a", str "2")], [(str "a", str "3")]]]).flatten
    = [[(str "a", str "2")], [(str "a", str "1")]] := by decide

end Props.C04
end Miller
