/-
C15 — String, regex, formatting and hash functions match independent references.

Models: `Model/Strings.lean` (UTF-8 character counting and slicing, padding, stripping, ASCII
case mapping, literal substitution, base64, hex) and the regex engine of `Model/Regex.lean`
(sub/gsub/regextract/matching, tied to Go's regexp by the `re` correspondence of C12); tied to
pkg/bifs by the `str` correspondence.  Digests, printf-style formatting of floats and the
wrapping verbs are compared with independent references on the implementation (Python hashlib
and % formatting; function applied per field).
-/
import MillerModel.Model.Strings
set_option maxRecDepth 8000
namespace Miller
namespace Props.C15
open Strings

/-! ### characters, not bytes -/

theorem runesAux_ascii (s : Bytes) (h : ∀ b ∈ s, b < 128) (fuel : Nat) (hf : s.length ≤ fuel) :
    runesAux fuel s = s := by
  induction s generalizing fuel with
  | nil => cases fuel <;> rfl
  | cons b rest ih =>
    cases fuel with
    | zero => simp at hf
    | succ f =>
      have hb := h b (by simp)
      simp only [runesAux, decodeRune, hb, if_true]
      have : max 1 1 = 1 := rfl
      simp only [this, List.drop_succ_cons, List.drop_zero]
      rw [ih (fun x hx => h x (by simp [hx])) f (by simpa using hf)]

/-- For ASCII text a character is a byte: `strlen` is the length. -/
theorem strlen_ascii (s : Bytes) (h : ∀ b ∈ s, b < 128) : strlen s = s.length := by
  unfold strlen runes
  rw [runesAux_ascii s h s.length (Nat.le_refl _)]

/-- Decoding the encoding of any Unicode scalar value gives it back with the right width: a
multi-byte character is ONE character (2-, 3- and 4-byte forms, all code points). -/
theorem decode_encode_scalar (r : Nat) (hr : r ≤ 0x10FFFF) (hs : ¬ (0xD800 ≤ r ∧ r < 0xE000)) (rest : Bytes) :
    decodeRune (encodeRune r ++ rest) = (r, (encodeRune r).length) := by
  unfold encodeRune
  by_cases h1 : r < 128
  · simp [h1, decodeRune]
  · by_cases h2 : r < 0x800
    · simp only [h1, h2, if_true, if_false, List.cons_append, List.nil_append, decodeRune, isCont]
      have a1 : ¬ (0xC0 + r / 64 < 128) := by omega
      have a2 : ¬ (0xC0 + r / 64 < 0xC2) := by omega
      have a3 : 0xC0 + r / 64 < 0xE0 := by omega
      have a4 : (128 ≤ 128 + r % 64 && 128 + r % 64 < 192) = true := by simp; omega
      simp only [a1, a2, a3, a4, if_true, if_false, List.length_cons, List.length_nil]
      congr 1
      omega
    · have hsur : ((0xD800 ≤ r && r < 0xE000) || r > 0x10FFFF) = false := by
        simp only [Bool.or_eq_false_iff, Bool.and_eq_false_iff, decide_eq_false_iff_not]
        constructor
        · by_cases ha : 0xD800 ≤ r
          · right; intro hb; exact hs ⟨ha, hb⟩
          · left; exact ha
        · omega
      by_cases h3 : r < 0x10000
      · simp only [h1, h2, hsur, h3, if_true, if_false, Bool.false_eq_true, List.cons_append, List.nil_append, decodeRune, isCont]
        have a1 : ¬ (0xE0 + r / 4096 < 128) := by omega
        have a2 : ¬ (0xE0 + r / 4096 < 0xC2) := by omega
        have a3 : ¬ (0xE0 + r / 4096 < 0xE0) := by omega
        have a4 : 0xE0 + r / 4096 < 0xF0 := by omega
        simp only [a1, a2, a3, a4, if_true, if_false]
        have c1 : ((if (0xE0 + r / 4096 == 0xE0) = true then 0xA0 else 0x80) ≤ 128 + r / 64 % 64 &&
                   128 + r / 64 % 64 ≤ (if (0xE0 + r / 4096 == 0xED) = true then 0x9F else 0xBF) &&
                   (128 ≤ 128 + r % 64 && 128 + r % 64 < 192)) = true := by
          have hs' : ¬ (0xD800 ≤ r ∧ r < 0xE000) := hs
          by_cases e0 : r / 4096 = 0
          · have : (0xE0 + r / 4096 == 0xE0) = true := by simp [e0]
            have n : (0xE0 + r / 4096 == 0xED) = false := by simp [e0]
            simp only [this, n, if_true, Bool.false_eq_true, if_false]
            simp; omega
          · by_cases ed : r / 4096 = 13
            · have : (0xE0 + r / 4096 == 0xE0) = false := by simp [ed]
              have n : (0xE0 + r / 4096 == 0xED) = true := by simp [ed]
              simp only [this, n, if_true, Bool.false_eq_true, if_false]
              simp; omega
            · have : (0xE0 + r / 4096 == 0xE0) = false := by simp; omega
              have n : (0xE0 + r / 4096 == 0xED) = false := by simp; omega
              simp only [this, n, Bool.false_eq_true, if_false]
              simp; omega
        simp only [c1, if_true, List.length_cons, List.length_nil]
        congr 1
        omega
      · simp only [h1, h2, hsur, h3, if_false, Bool.false_eq_true, List.cons_append, List.nil_append, decodeRune, isCont]
        have a1 : ¬ (0xF0 + r / 262144 < 128) := by omega
        have a2 : ¬ (0xF0 + r / 262144 < 0xC2) := by omega
        have a3 : ¬ (0xF0 + r / 262144 < 0xE0) := by omega
        have a4 : ¬ (0xF0 + r / 262144 < 0xF0) := by omega
        have a5 : 0xF0 + r / 262144 < 0xF5 := by omega
        simp only [a1, a2, a3, a4, a5, if_true, if_false]
        have c1 : ((if (0xF0 + r / 262144 == 0xF0) = true then 0x90 else 0x80) ≤ 128 + r / 4096 % 64 &&
                   128 + r / 4096 % 64 ≤ (if (0xF0 + r / 262144 == 0xF4) = true then 0x8F else 0xBF) &&
                   (128 ≤ 128 + r / 64 % 64 && 128 + r / 64 % 64 < 192) && (128 ≤ 128 + r % 64 && 128 + r % 64 < 192)) = true := by
          by_cases e0 : r / 262144 = 0
          · have : (0xF0 + r / 262144 == 0xF0) = true := by simp [e0]
            have n : (0xF0 + r / 262144 == 0xF4) = false := by simp [e0]
            simp only [this, n, if_true, Bool.false_eq_true, if_false]
            simp; omega
          · by_cases e4 : r / 262144 = 4
            · have : (0xF0 + r / 262144 == 0xF0) = false := by simp [e4]
              have n : (0xF0 + r / 262144 == 0xF4) = true := by simp [e4]
              simp only [this, n, if_true, Bool.false_eq_true, if_false]
              simp; omega
            · have : (0xF0 + r / 262144 == 0xF0) = false := by simp; omega
              have n : (0xF0 + r / 262144 == 0xF4) = false := by simp; omega
              simp only [this, n, Bool.false_eq_true, if_false]
              simp; omega
        simp only [c1, if_true, List.length_cons, List.length_nil]
        congr 1
        omega

/-! ### case mapping, stripping (ASCII model) -/

theorem toupper_idempotent (s : Bytes) : toupper (toupper s) = toupper s := by
  unfold toupper
  rw [List.map_map]
  apply List.map_congr_left
  intro c _
  simp only [Function.comp, upperByte]
  by_cases h : (97 ≤ c && c ≤ 122) = true
  · simp [h]
    intro h3
    simp at h
    omega
  · simp [h]

theorem lower_upper_byte (c : Nat) : lowerByte (upperByte c) = lowerByte c := by
  unfold lowerByte upperByte
  by_cases h : 97 ≤ c ∧ c ≤ 122
  · have e1 : (97 ≤ c && c ≤ 122) = true := by simp [h]
    have e2 : (65 ≤ c - 32 && c - 32 ≤ 90) = true := by simp; omega
    have e3 : (65 ≤ c && c ≤ 90) = false := by simp; omega
    simp only [e1, e2, e3, if_true, Bool.false_eq_true, if_false]
    omega
  · have e1 : (97 ≤ c && c ≤ 122) = false := by simp; omega
    simp only [e1, Bool.false_eq_true, if_false]

theorem tolower_toupper (s : Bytes) : tolower (toupper s) = tolower s := by
  unfold tolower toupper
  rw [List.map_map]
  apply List.map_congr_left
  intro c _
  exact lower_upper_byte c

theorem case_mapping_keeps_length (s : Bytes) : (toupper s).length = s.length ∧ (tolower s).length = s.length := by
  simp [toupper, tolower]

theorem lstrip_no_leading_blank (s : Bytes) : ∀ c, (lstrip s).head? = some c → isBlank c = false := by
  intro c h
  unfold lstrip at h
  induction s with
  | nil => simp at h
  | cons a rest ih =>
    simp only [List.dropWhile] at h
    by_cases hb : isBlank a = true
    · simp only [hb] at h; exact ih h
    · simp only [hb] at h
      simp only [List.head?_cons, Option.some.injEq] at h
      subst h; simpa using hb

theorem lstrip_idempotent (s : Bytes) : lstrip (lstrip s) = lstrip s := by
  unfold lstrip
  induction s with
  | nil => rfl
  | cons a rest ih =>
    simp only [List.dropWhile]
    by_cases hb : isBlank a = true
    · simp only [hb]; exact ih
    · simp only [hb, List.dropWhile]

/-! ### literal substitution -/

theorem ssub_no_occurrence_aux (old new : Bytes) (s : Bytes) (h : ∀ t, ∀ pre, s = pre ++ t → hasPrefix t old = false ∨ t = []) :
    ssub.go old new s = s := by
  induction s with
  | nil => rfl
  | cons c rest ih =>
    have h0 := h (c :: rest) [] rfl
    have hp : hasPrefix (c :: rest) old = false := by
      rcases h0 with h0 | h0
      · exact h0
      · simp at h0
    simp only [ssub.go, hp, Bool.false_eq_true, if_false]
    rw [ih (fun t pre ht => h t (c :: pre) (by simp [ht]))]

/-- `ssub`/`gssub` replace LITERALLY: when the text to find does not occur, nothing changes — in
particular regex metacharacters in it have no effect. -/
theorem ssub_no_occurrence (s old new : Bytes) (hne : old ≠ [])
    (h : ∀ t, ∀ pre, s = pre ++ t → hasPrefix t old = false ∨ t = []) : ssub s old new = s := by
  unfold ssub
  have : old.isEmpty = false := by cases old <;> simp_all
  simp only [this, Bool.false_eq_true, if_false]
  exact ssub_no_occurrence_aux old new s h

/-! ### inverse pairs -/

theorem b64val_b64char (n : Nat) (h : n < 64) : b64val (b64char n) = some n := by
  have : ∀ m : Fin 64, b64val (b64char m.val) = some m.val := by decide
  exact this ⟨n, h⟩

theorem b64char_ne_pad (n : Nat) (h : n < 64) : (b64char n == 61) = false := by
  have : ∀ m : Fin 64, (b64char m.val == 61) = false := by decide
  exact this ⟨n, h⟩

/-- base64 decode ∘ encode = id on ALL byte strings (any length, any bytes). -/
theorem b64_roundtrip (s : Bytes) (h : ∀ b ∈ s, b < 256) : b64decode (b64encode s) = some s := by
  have key : ∀ n (s : Bytes), s.length ≤ n → (∀ b ∈ s, b < 256) → b64decode (b64encode s) = some s := by
    intro n
    induction n with
    | zero => intro s hl _; cases s with | nil => rfl | cons _ _ => simp at hl
    | succ n ih =>
      intro s hl hb
      match s, hl, hb with
      | [], _, _ => rfl
      | [a], _, hb =>
        have ha := hb a (by simp)
        simp only [b64encode, b64decode, beq_self_eq_true, Bool.and_self, List.isEmpty_nil, if_true]
        rw [b64val_b64char _ (by omega), b64val_b64char _ (by omega)]
        simp only [Option.bind_some, Option.some.injEq, List.cons.injEq, and_true]
        omega
      | [a, b], _, hb =>
        have ha := hb a (by simp); have hb' := hb b (by simp)
        have e3 := b64char_ne_pad (b % 16 * 4) (by omega)
        simp only [b64encode, b64decode, e3, beq_self_eq_true, Bool.false_and, Bool.true_and, List.isEmpty_nil, Bool.false_eq_true, if_false, if_true]
        rw [b64val_b64char _ (by omega), b64val_b64char _ (by omega), b64val_b64char _ (by omega)]
        simp only [Option.bind_some, Option.some.injEq, List.cons.injEq, and_true]
        omega
      | a :: b :: c :: rest, hl, hb =>
        have ha := hb a (by simp); have hb' := hb b (by simp); have hc := hb c (by simp)
        have ihr := ih rest (by simp at hl; omega) (fun x hx => hb x (by simp [hx]))
        have e3 := b64char_ne_pad (b % 16 * 4 + c / 64) (by omega)
        have e4 := b64char_ne_pad (c % 64) (by omega)
        simp only [b64encode, b64decode, e3, e4, Bool.false_and, Bool.false_eq_true, if_false]
        rw [b64val_b64char _ (by omega), b64val_b64char _ (by omega), b64val_b64char _ (by omega), b64val_b64char _ (by omega), ihr]
        simp only [Option.bind_some, Option.some.injEq, List.cons.injEq, and_true]
        omega
  exact key _ _ (Nat.le_refl _) h

theorem hexVal_hexDigit (n : Nat) (h : n < 16) : hexVal (hexDigit n) = some n := by
  have : ∀ m : Fin 16, hexVal (hexDigit m.val) = some m.val := by decide
  exact this ⟨n, h⟩

/-- hex decode ∘ encode = id on all byte strings. -/
theorem hex_roundtrip (s : Bytes) (h : ∀ b ∈ s, b < 256) : hexDecode (hexEncode s) = some s := by
  induction s with
  | nil => rfl
  | cons a rest ih =>
    have ha := h a (by simp)
    simp only [hexEncode, List.flatMap_cons, List.cons_append, List.nil_append, hexDecode]
    rw [hexVal_hexDigit _ (by omega), hexVal_hexDigit _ (by omega)]
    have := ih (fun x hx => h x (by simp [hx]))
    simp only [hexEncode] at this
    rw [this]
    simp only [Option.bind_eq_bind, Option.bind_some, Option.pure_def, Option.some.injEq, List.cons.injEq, and_true]
    omega

/-! Non-vacuity / witnesses -/
example : strlen (str "abc") = 3 ∧ strlen [0xC3, 0xA9] = 1 ∧ strlen [0xE2, 0x82, 0xAC, 0x61] = 2 ∧ strlen [0xF0, 0x9F, 0x98, 0x80] = 1 ∧
    strlen [0xFF, 0xFE] = 2 ∧ strlen [0xC3] = 1 ∧ strlen [0xED, 0xA0, 0x80] = 3 := by decide
example : substr1 (str "hello") 2 4 = str "ell" ∧ substr1 (str "hello") (-3) (-1) = str "llo" ∧ substr1 (str "hello") 0 2 = str "he" ∧ substr1 (str "hello") 3 2 = [] ∧
    substr1 (str "hello") 4 9 = str "lo" ∧ substr1 [0x61, 0xC3, 0xA9, 0x62] 2 2 = [0xC3, 0xA9] := by decide
example : b64encode (str "hello") = str "aGVsbG8=" ∧ b64decode (str "aGVsbG8=") = some (str "hello") := by decide
example : leftpad (str "5") 4 (str "0") = str "0005" ∧ rightpad (str "ab") 5 (str "xy") = str "abxy" ∧ leftpad (str "abc") 2 (str "0") = str "abc" := by decide

end Props.C15
end Miller
