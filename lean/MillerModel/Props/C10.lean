/-
C10 — Aggregating verbs equal first-principles recomputation, group by group.

The models (`Model/Verbs/Stats.lean`) are the STREAMING algorithms as the Go verbs run them
(an insertion-ordered map from the joined group-by texts to per-group state, updated record by
record; numbers through the regenerated `+`/`/`/min/max disposition tables) and are tied to
pkg/transformers by the `verbs`/`verbsx` correspondence.  The theorems say that for EVERY input
stream the streaming computation equals the stateless definition: group the records by the exact
texts of the group-by fields, in first-appearance order, and fold each group's own records.
-/
import MillerModel.Lemmas.C10
import MillerModel.Lemmas.C07
namespace Miller
namespace Props.C10
open Verbs Lemmas.C10 Lemmas.C11

/-- The records of group `k` (key = group-by texts joined with commas), in input order. -/
abbrev groupOf (fs : List Bytes) (xs : List Rec) (k : Bytes) : List Rec := grp (gkey fs) xs k
/-- The distinct group keys in order of first appearance. -/
abbrev groupKeys (fs : List Bytes) (xs : List Rec) : List Bytes := dkeys (gkey fs) xs

/-- MAIN THEOREM (all grouped accumulations: count, count-distinct, uniq -g -c -n, count-similar,
stats1): for every update function, initial state, field list and input stream, the streaming
accumulation holds — per group, in first-appearance order of the groups — the group-by values
of the group's first record and the fold of the update over exactly that group's records in
input order.  Records lacking a group-by field have no key and contribute to no group. -/
theorem accumulation_is_per_group_fold {α} (fs : List Bytes) (init : α) (upd : α → Rec → α) (xs : List Rec) :
    groupFold fs init upd xs
      = (groupKeys fs xs).map fun k => (k, (firstVals fs (groupOf fs xs k), (groupOf fs xs k).foldl upd init)) :=
  groupFold_eq fs init upd xs

theorem foldl_count (g : List Rec) (c : Nat) : g.foldl (fun (c : Nat) _ => c + 1) c = c + g.length := by
  induction g generalizing c with
  | nil => rfl
  | cons _ g ih => simp only [List.foldl_cons, List.length_cons]; rw [ih]; omega

/-- `count -g`: one record per group, first-appearance order, carrying the group-by values and the
number of records of that group. -/
theorem count_by_group (fs : List Bytes) (out : Bytes) (xs : List Rec) :
    countVerb (some fs) false out xs
      = (groupKeys fs xs).map fun k =>
          Rec.put (groupRec fs (firstVals fs (groupOf fs xs k))) out (renderInt (groupOf fs xs k).length) := by
  unfold countVerb
  simp only [Bool.false_eq_true, if_false]
  rw [groupFold_eq, List.map_map]
  apply List.map_congr_left
  intro k _
  simp [summ]

/-- Counts over all groups add up to the number of contributing records (those having every
group-by field). -/
theorem counts_add_up (fs : List Bytes) (xs : List Rec) :
    ((groupFold fs 0 (fun (c : Nat) _ => c + 1) xs).map (·.2.2)).sum
      = (xs.filter fun r => (gkey fs r).isSome).length := by
  rw [groupFold_eq, List.map_map, ← S_total]
  unfold S
  congr 1
  apply List.map_congr_left
  intro k _
  simp [summ]

/-- `count -d -g`, `count-distinct -n`, `uniq -n -g`: the number of distinct groups. -/
theorem distinct_count (fs : List Bytes) (out : Bytes) (xs : List Rec) :
    countVerb (some fs) true out xs = [[(out, renderInt (groupKeys fs xs).length)]] ∧
    countDistinct fs true out xs = [[(out, renderInt (groupKeys fs xs).length)]] ∧
    uniqGroup fs false true out xs = [[(out, renderInt (groupKeys fs xs).length)]] := by
  unfold countVerb countDistinct uniqGroup
  simp [groupFold_eq]

/-- `count-similar`: records grouped in first-appearance order, input order within a group,
each with its group's size appended. -/
theorem count_similar_spec (fs : List Bytes) (out : Bytes) (xs : List Rec) :
    countSimilar fs out xs
      = (groupKeys fs xs).flatMap fun k =>
          (groupOf fs xs k).map fun r => Rec.put r out (renderInt (groupOf fs xs k).length) := by
  unfold countSimilar
  rw [groupFold_eq]
  have hid : ∀ (g acc : List Rec), g.foldl (fun acc r => acc ++ [r]) acc = acc ++ g := by
    intro g
    induction g with
    | nil => simp
    | cons r g ih => intro acc; simp [ih]
  simp [List.flatMap_def, List.map_map, Function.comp_def, summ, hid]

/-- `stats1`: per group (first-appearance order) the emitted statistics are computed from the
accumulators folded over exactly that group's records. -/
theorem stats1_per_group (accs : List String) (vf gf : List Bytes) (xs : List Rec) :
    stats1 accs vf gf xs
      = ((groupKeys gf xs).map fun k =>
          (k, (firstVals gf (groupOf gf xs k), (groupOf gf xs k).foldl (stats1Upd (uniqNames vf)) ([] : OMap Acc)))).mapM
          fun p => stats1Emit (uniqNames accs) gf p.2.1 p.2.2 := by
  unfold stats1
  rw [groupFold_eq]
  rfl

/-- A record lacking every value field is left out of the accumulation. -/
theorem stats1_skips_records_without_value (vf : List Bytes) (st : OMap Acc) (r : Rec)
    (h : ∀ f ∈ vf, get r f = none) : stats1Upd vf st r = st := by
  unfold stats1Upd
  induction vf generalizing st with
  | nil => rfl
  | cons f vf ih =>
    simp only [List.foldl_cons, h f (by simp)]
    exact ih st (fun g hg => h g (by simp [hg]))

/-- Repeated names in `-a`/`-f` lists are processed once: the list used is duplicate-free and has
the same members. -/
theorem uniqNames_nodup_same (l : List Bytes) : (uniqNames l).Nodup ∧ ∀ x, x ∈ uniqNames l ↔ x ∈ l := by
  unfold uniqNames
  have aux : ∀ (l acc : List Bytes), acc.Nodup →
      (l.foldl (fun acc x => if acc.contains x then acc else acc ++ [x]) acc).Nodup ∧
      ∀ x, x ∈ l.foldl (fun acc x => if acc.contains x then acc else acc ++ [x]) acc ↔ x ∈ acc ∨ x ∈ l := by
    intro l
    induction l with
    | nil => intro acc h; simp [h]
    | cons y l ih =>
      intro acc h
      simp only [List.foldl_cons]
      by_cases hc : acc.contains y = true
      · simp only [hc, if_true]
        have := ih acc h
        refine ⟨this.1, fun x => ?_⟩
        rw [this.2 x]
        have hy : y ∈ acc := by simpa using hc
        constructor
        · rintro (h | h) <;> simp [h]
        · rintro (h | h)
          · left; exact h
          · rcases List.mem_cons.mp h with rfl | h
            · left; exact hy
            · right; exact h
      · simp only [hc, Bool.false_eq_true, if_false]
        have hy : y ∉ acc := by simpa using hc
        have hnd : (acc ++ [y]).Nodup := by
          apply List.nodup_append.mpr
          refine ⟨h, by simp, ?_⟩
          intro a ha b hb
          simp only [List.mem_singleton] at hb
          subst hb; intro he; subst he; exact hy ha
        have := ih (acc ++ [y]) hnd
        refine ⟨this.1, fun x => ?_⟩
        rw [this.2 x]
        simp only [List.mem_append, List.mem_cons, List.not_mem_nil, or_false]
        constructor
        · rintro ((h | h) | h)
          · left; exact h
          · right; left; exact h
          · right; right; exact h
        · rintro (h | h | h)
          · left; left; exact h
          · left; right; exact h
          · right; exact h
  have := aux l [] (by simp)
  simpa using this

/-! ### sums, minima and maxima of ints stay ints -/

/-- Every partial sum (and every summand) fits in int64. -/
def sumsFit : Int → List Int → Prop
  | acc, [] => I64 acc
  | acc, x :: xs => I64 acc ∧ I64 x ∧ sumsFit (acc + x) xs

theorem tvPlus_ints (a b : TV) (x y : Int) (ha : a.v = .int x) (hb : b.v = .int y)
    (hx : I64 x) (hy : I64 y) (hs : I64 (x + y)) : (tvPlus a b).v = .int (x + y) := by
  show outVal (Disp.evalBinary Gen.bifs_plus_dispositions Gen.bifs_uneg_dispositions a.v b.v) = _
  rw [ha, hb]
  show outVal (Out.val (Arith.plus_n_ii x y)) = _
  rw [Lemmas.C07.plus_exact x y hx hy]
  have : fitsI64 (x + y) = true := (fitsI64_iff _).mpr hs
  simp [outVal, Spec.Arith.plus, Spec.Arith.exactOrFloat, this]

/-- The `sum` accumulator over int values whose partial sums fit in 64 bits is the exact integer
sum — an int, never a float — for value lists of every length.  (`tvPlus` is `BIF_plus_binary`
through the regenerated `plus_dispositions`, the call stats1/merge-fields/step -a rsum make.) -/
theorem sum_of_ints_is_int (ts : List TV) (xs : List Int) (s : TV) (acc : Int)
    (hs : s.v = .int acc) (hts : ts.map TV.v = xs.map Val.int) (hfit : sumsFit acc xs) :
    (ts.foldl tvPlus s).v = .int (acc + xs.sum) := by
  induction ts generalizing xs s acc with
  | nil =>
    cases xs with
    | nil => simpa using hs
    | cons _ _ => simp at hts
  | cons t ts ih =>
    cases xs with
    | nil => simp at hts
    | cons x xs =>
      simp only [List.map_cons, List.cons.injEq] at hts
      obtain ⟨h1, h2, h3⟩ := hfit
      have h4 : I64 (acc + x) := by cases xs with
        | nil => exact h3
        | cons _ _ => exact h3.1
      have := ih xs (tvPlus s t) (acc + x) (tvPlus_ints s t acc x hs hts.1 h1 h2 h4) hts.2 h3
      simp only [List.foldl_cons, List.sum_cons]
      rw [this]; congr 1; omega

/-- The accumulator's `sum` field is that fold. -/
theorem ingest_sum (a : Acc) (t : TV) (h : isNumericTV t = true) : (a.ingest t).sum = tvPlus a.sum t := by
  simp [Acc.ingest, h]

def ival (t : TV) : Int := match t.v with | .int x => x | _ => 0

theorem tvMax_ints (a b : TV) (x y : Int) (ha : a.v = .int x) (hb : b.v = .int y) :
    tvMinMax true a b = (if x > y then a else b) ∧ tvMinMax false a b = (if x < y then a else b) := by
  cases a with | mk av at_ => cases b with | mk bv bt =>
  simp only at ha hb; subst ha; subst hb
  exact ⟨rfl, rfl⟩

theorem tvMax_absent (b : TV) (y : Int) (hb : b.v = .int y) :
    tvMinMax true { v := .absent } b = b ∧ tvMinMax false { v := .absent } b = b := by
  cases b with | mk bv bt =>
  simp only at hb; subst hb
  exact ⟨rfl, rfl⟩

theorem foldl_max_ints (ts : List TV) (a : TV) (x : Int) (ha : a.v = .int x)
    (hts : ∀ t ∈ ts, ∃ y, t.v = .int y) :
    let r := ts.foldl (tvMinMax true) a
    (r = a ∨ r ∈ ts) ∧ (∃ z, r.v = .int z) ∧ ival a ≤ ival r ∧ ∀ t ∈ ts, ival t ≤ ival r := by
  induction ts generalizing a x with
  | nil => simp [ha]
  | cons t ts ih =>
    obtain ⟨y, hy⟩ := hts t (by simp)
    have hstep := (tvMax_ints a t x y ha hy).1
    simp only [List.foldl_cons, hstep]
    by_cases hxy : x > y
    · simp only [hxy, if_true]
      have := ih a x ha (fun u hu => hts u (by simp [hu]))
      simp only at this
      refine ⟨?_, this.2.1, this.2.2.1, ?_⟩
      · rcases this.1 with h | h
        · left; exact h
        · right; simp [h]
      · intro u hu
        rcases List.mem_cons.mp hu with rfl | hu
        · have : ival u ≤ ival a := by simp [ival, ha, hy]; omega
          omega
        · exact this.2.2.2 u hu
    · simp only [hxy, if_false]
      have := ih t y hy (fun u hu => hts u (by simp [hu]))
      simp only at this
      refine ⟨?_, this.2.1, ?_, ?_⟩
      · rcases this.1 with h | h
        · right; simp [h]
        · right; simp [h]
      · have : ival a ≤ ival t := by simp [ival, ha, hy]; omega
        omega
      · intro u hu
        rcases List.mem_cons.mp hu with rfl | hu
        · exact this.2.2.1
        · exact this.2.2.2 u hu

/-- The `max` accumulator (started absent, as stats1 does) over a non-empty list of int values
returns one of the input values themselves — an int, with its original text — and it is an
upper bound of them all; for every list length. -/
theorem max_of_ints_is_member (t : TV) (ts : List TV) (hts : ∀ u ∈ t :: ts, ∃ y, u.v = .int y) :
    let r := (t :: ts).foldl (tvMinMax true) { v := .absent }
    r ∈ t :: ts ∧ (∃ z, r.v = .int z) ∧ ∀ u ∈ t :: ts, ival u ≤ ival r := by
  obtain ⟨y, hy⟩ := hts t (by simp)
  have h0 := (tvMax_absent t y hy).1
  have := foldl_max_ints ts t y hy (fun u hu => hts u (by simp [hu]))
  simp only [List.foldl_cons, h0] at this ⊢
  refine ⟨?_, this.2.1, ?_⟩
  · rcases this.1 with h | h
    · simp [h]
    · simp [h]
  · intro u hu
    rcases List.mem_cons.mp hu with rfl | hu
    · exact this.2.2.1
    · exact this.2.2.2 u hu

/-! ### percentiles -/

/-- The non-interpolated percentile index is always inside the sorted array. -/
theorem percentile_index_in_range (pb n : Nat) (h : 0 < n) : percentileIndexB pb n < n := by
  unfold percentileIndexB
  simp only
  split <;> split <;> omega

theorem insTV_length (t : TV) (l : List TV) : (insTV t l).length = l.length + 1 := by
  induction l with
  | nil => rfl
  | cons h rest ih => unfold insTV; split <;> simp [ih]

theorem insTV_mem (t u : TV) (l : List TV) : u ∈ insTV t l ↔ u = t ∨ u ∈ l := by
  induction l with
  | nil => simp [insTV]
  | cons h rest ih =>
    unfold insTV
    split
    · simp
    · simp only [List.mem_cons, ih]
      constructor
      · rintro (h | h | h) <;> simp [h]
      · rintro (h | h | h) <;> simp [h]

theorem sort_fold (ts acc : List TV) :
    (ts.foldl (fun acc t => insTV t acc) acc).length = acc.length + ts.length ∧
    ∀ u, u ∈ ts.foldl (fun acc t => insTV t acc) acc ↔ u ∈ acc ∨ u ∈ ts := by
  induction ts generalizing acc with
  | nil => simp
  | cons t ts ih =>
    have := ih (insTV t acc)
    simp only [List.foldl_cons, List.length_cons, List.mem_cons]
    refine ⟨by rw [this.1, insTV_length]; omega, ?_⟩
    intro u
    rw [this.2 u, insTV_mem]
    constructor
    · rintro ((h | h) | h) <;> simp [h]
    · rintro (h | h | h) <;> simp [h]

/-- Sorting for percentiles neither loses nor invents values, and the percentile of a non-empty
group is one of the group's own values (non-interpolated percentiles never synthesise a number). -/
theorem percentile_is_a_member (pb : Nat) (t : TV) (ts : List TV) :
    (sortTVs (t :: ts)).length = (t :: ts).length ∧ percentileOfB pb (t :: ts) ∈ t :: ts := by
  have hs := sort_fold (t :: ts) []
  have hlen : (sortTVs (t :: ts)).length = (t :: ts).length := by simpa [sortTVs] using hs.1
  refine ⟨hlen, ?_⟩
  unfold percentileOfB
  simp only [List.isEmpty_cons, Bool.false_eq_true, if_false]
  have hidx : percentileIndexB pb (t :: ts).length < (sortTVs (t :: ts)).length := by
    rw [hlen]; exact percentile_index_in_range pb (t :: ts).length (by simp)
  rw [List.getD_eq_getElem?_getD, List.getElem?_eq_getElem hidx]
  simp only [Option.getD_some]
  have hm : (sortTVs (t :: ts))[percentileIndexB pb (t :: ts).length] ∈ sortTVs (t :: ts) := List.getElem_mem hidx
  have := (hs.2 _).mp hm
  simpa using this

/-! Non-vacuity -/
example : sumsFit 0 [5, -7, 9223372036854775807] ∧ ¬ sumsFit 0 [9223372036854775807, 1] := by
  unfold sumsFit sumsFit sumsFit sumsFit I64; omega
example : countVerb (some [str "a"]) false (str "count")
    [[(str "a", str "x")], [(str "b", str "y")], [(str "a", str "z")], [(str "a", str "x")]]
    = [[(str "a", str "x"), (str "count", str "2")], [(str "a", str "z"), (str "count", str "1")]] := by decide
example : percentileIndex 50 5 = 2 ∧ percentileIndex 100 5 = 4 ∧ percentileIndex 0 5 = 0 ∧ percentileIndex 25 4 = 1 := by
  decide +kernel

end Props.C10
end Miller
