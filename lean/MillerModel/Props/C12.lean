/-
C12 — Field-restructuring verbs do exactly their rearrangement and invert cleanly.

Models: Model/Verbs/Restructure.lean (Mlrmap list surgery + cut, reorder, rename, label,
regularize, sort-within-records, unsparsify, sparsify, fill-empty, template, altkv), tied to the
real transformers by the in-process `verbs` correspondence (96k cases in the thorough tier agree).
-/
import MillerModel.Lemmas.C12
namespace Miller
namespace Props.C12
open Verbs Lemmas.C12

/-- cut -f F and cut -x -f F split each record into complementary parts, both in record order. -/
theorem cut_complement (fields : List Bytes) (r : Rec) :
    List.Perm (cutInclude fields r ++ cutExclude fields r) r ∧
    List.Sublist (cutInclude fields r) r ∧ List.Sublist (cutExclude fields r) r :=
  Lemmas.C12.cut_complement fields r

/-- Renaming a field to its own name changes nothing (the former defect, see known_findings). -/
theorem rename_self (r : Rec) (a : Bytes) : rename r a a = r := Lemmas.C12.rename_self r a

/-- rename a,b then rename b,a is the identity when b is new. -/
theorem rename_inverse (r : Rec) (a b : Bytes) (hb : has r b = false) (hab : a ≠ b) :
    rename (rename r a b) b a = r := Lemmas.C12.rename_inverse r a b hb hab

/-- rename leaves every other field's value alone. -/
theorem rename_bystander (r : Rec) (a b k : Bytes) (hka : k ≠ a) (hkb : k ≠ b) :
    Verbs.get (rename r a b) k = Verbs.get r k := Lemmas.C12.rename_bystander r a b k hka hkb

/-- unsparsify: one output per input, rebuilt over the union of all field names in first-seen
order with the filler where a field was missing — hence rectangular. -/
theorem unsparsify_spec (fill : Bytes) (xs : List Rec) :
    (unsparsify fill).run xs
      = xs.map (fun r => (unionKeysFrom [] xs).map fun k => (k, (Verbs.get r k).getD fill)) :=
  Lemmas.C12.unsparsify_spec fill xs

theorem unsparsify_rectangular (fill : Bytes) (xs : List Rec) :
    ∀ out ∈ (unsparsify fill).run xs, out.keys = unionKeysFrom [] xs :=
  Lemmas.C12.unsparsify_rectangular fill xs

/-- sort-within-records only permutes the fields of a record. -/
theorem sort_within_records_perm (rev : Bool) (r : Rec) : List.Perm (sortWithinRecords rev r) r :=
  Lemmas.C12.sortWithinRecords_perm rev r

/-- fill-empty changes only empty values: names and order are kept, non-empty values untouched. -/
theorem fill_empty_spec (fill : Bytes) (r : Rec) :
    (fillEmpty fill r).keys = r.keys ∧
    ∀ p ∈ r, p.2.isEmpty = false → p ∈ fillEmpty fill r := by
  constructor
  · unfold fillEmpty Rec.keys
    rw [List.map_map]; apply List.map_congr_left; intro p _
    by_cases h : p.2.isEmpty = true <;> simp [Function.comp, h]
  · intro p hp hne
    unfold fillEmpty
    exact List.mem_map.mpr ⟨p, hp, by simp [hne]⟩

/-- sparsify removes fields, never alters one. -/
theorem sparsify_sublist (filler : Bytes) (only : Option (List Bytes)) (r : Rec) :
    List.Sublist (sparsify filler only r) r := by
  unfold sparsify; exact List.filter_sublist

/-! Non-vacuity / concrete instances -/
example : rename [(str "a", str "1"), (str "b", str "2"), (str "c", str "3")] (str "a") (str "a")
    = [(str "a", str "1"), (str "b", str "2"), (str "c", str "3")] := by decide
example : (unsparsify []).run [[(str "a", str "1"), (str "b", str "2")], [(str "b", str "3"), (str "c", str "4")]]
    = [[(str "a", str "1"), (str "b", str "2"), (str "c", [])], [(str "a", []), (str "b", str "3"), (str "c", str "4")]] := by decide

end Props.C12
end Miller
