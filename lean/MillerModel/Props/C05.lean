/-
C05 — then-chaining equals piping; inputs concatenate; NR/FNR/FILENAME track source.

Chain semantics and the reader's context bookkeeping as Lean models (`Model/Pipeline.lean`); the
real pipeline (goroutines, files, stdin, decompression, prepipes) is exercised by the T3 part of
the check, which also compares `mlr A then B` with `mlr A | mlr B` on the real binary.
-/
import MillerModel.Model.Pipeline
namespace Miller
namespace Props.C05
open Verbs Pipeline

/-- `A then B` is B applied to the output of A, for chains of every length on both sides: running
the concatenated chain equals running the first part and feeding its output to the second (what
piping `mlr A` into `mlr B` through a lossless intermediate format does; losslessness of the
formats is C01). -/
theorem then_is_composition (as bs : List AnyMachine) (xs : List Rec) :
    chainRun (as ++ bs) xs = chainRun bs (chainRun as xs) := by
  simp [chainRun, List.foldl_append]

/-- … and likewise for three-way splits (longer chains). -/
theorem then_is_associative (as bs cs : List AnyMachine) (xs : List Rec) :
    chainRun (as ++ bs ++ cs) xs = chainRun cs (chainRun bs (chainRun as xs)) := by
  simp [chainRun, List.foldl_append]

theorem contextsFrom_length (nr fnum : Nat) (counts : List Nat) :
    (contextsFrom nr fnum counts).length = counts.sum := by
  induction counts generalizing nr fnum with
  | nil => rfl
  | cons c rest ih => simp [contextsFrom, ih]

/-- One context per record: reading files f1..fn yields as many records as the files hold. -/
theorem one_context_per_record (counts : List Nat) : (contexts counts).length = counts.sum :=
  contextsFrom_length 0 0 counts

theorem contextsFrom_nr (nr fnum : Nat) (counts : List Nat) (i : Nat) (h : i < (contextsFrom nr fnum counts).length) :
    ((contextsFrom nr fnum counts)[i]).nr = nr + i + 1 := by
  induction counts generalizing nr fnum i with
  | nil => simp [contextsFrom] at h
  | cons c rest ih =>
    simp only [contextsFrom]
    by_cases hi : i < c
    · rw [List.getElem_append_left (by simpa using hi)]
      simp
    · have hlen : ((List.range c).map fun i => ({ nr := nr + i + 1, fnr := i + 1, filenum := fnum + 1, filename := fnum } : Ctx)).length = c := by simp
      rw [List.getElem_append_right (by rw [hlen]; omega)]
      simp only [hlen]
      have hh : i - c < (contextsFrom (nr + c) (fnum + 1) rest).length := by
        simp only [contextsFrom, List.length_append, hlen] at h
        omega
      rw [ih (nr + c) (fnum + 1) (i - c) hh]
      omega

/-- NR counts 1..N across all files: the i-th record read (0-based) has NR = i + 1, whatever the
files' sizes (empty files included). -/
theorem nr_counts_across_files (counts : List Nat) (i : Nat) (h : i < (contexts counts).length) :
    ((contexts counts)[i]).nr = i + 1 := by
  have := contextsFrom_nr 0 0 counts i h
  simp only [Nat.zero_add] at this
  exact this

/-- Reading several files is the concatenation of reading each alone as far as FNR, FILENAME and
FILENUM are concerned: the records of the k-th file (0-based) have FNR = 1, 2, …, FILENUM = k+1
and that file's name; NR continues from the records read before. -/
theorem files_concatenate (nr fnum c : Nat) (rest : List Nat) :
    contextsFrom nr fnum (c :: rest)
      = ((List.range c).map fun i => ({ nr := nr + i + 1, fnr := i + 1, filenum := fnum + 1, filename := fnum } : Ctx))
        ++ contextsFrom (nr + c) (fnum + 1) rest := rfl

/-- FNR restarts at 1 in each file and FILENAME/FILENUM name the file the record came from. -/
theorem fnr_restarts_and_filename_tracks (counts : List Nat) :
    ∀ c ∈ contexts counts, 1 ≤ c.fnr ∧ c.fnr ≤ c.nr ∧ c.filenum = c.filename + 1 ∧ c.filename < counts.length := by
  have aux : ∀ (counts : List Nat) (nr fnum : Nat), ∀ c ∈ contextsFrom nr fnum counts,
      1 ≤ c.fnr ∧ c.fnr ≤ c.nr ∧ c.filenum = c.filename + 1 ∧ fnum ≤ c.filename ∧ c.filename < fnum + counts.length := by
    intro counts
    induction counts with
    | nil => intro nr fnum c hc; simp [contextsFrom] at hc
    | cons k rest ih =>
      intro nr fnum c hc
      simp only [contextsFrom, List.mem_append, List.mem_map, List.mem_range] at hc
      rcases hc with ⟨i, _, rfl⟩ | hc
      · simp
      · have := ih (nr + k) (fnum + 1) c hc
        simp only [List.length_cons]
        omega
  intro c hc
  have := aux counts 0 0 c hc
  simp only [Nat.zero_add] at this
  exact ⟨this.1, this.2.1, this.2.2.1, this.2.2.2.2⟩

/-! Non-vacuity -/
example : contexts [2, 0, 1] = [⟨1, 1, 1, 0⟩, ⟨2, 2, 1, 0⟩, ⟨3, 1, 3, 2⟩] := by decide

end Props.C05
end Miller
