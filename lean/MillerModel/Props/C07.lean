/-
C07 — Arithmetic is exact on 64-bit ints, overflows to float, and never crashes.

Every theorem is stated THROUGH the regenerated disposition tables (`Gen/Disp.lean`) and the
regenerated kernel signatures: `Disp.evalBinary <table> …` first looks the cell up in the table
the translator extracted from pkg/bifs on this run, so a re-routed cell breaks the proof.
The int64 kernels are the hand-written models of `Model/Arith` (tied by correspondence).
-/
import MillerModel.Lemmas.C07
import MillerModel.Model.Disp
namespace Miller
namespace Props.C07
open Arith Disp Lemmas.C07

abbrev U := Gen.bifs_uneg_dispositions

/-- `+` on two int64: the exact sum when it fits in 64 bits, otherwise the IEEE sum of the
converted operands — never a wrapped integer. -/
theorem plus_exact (a b : Int) (ha : I64 a) (hb : I64 b) :
    evalBinary Gen.bifs_plus_dispositions U (.int a) (.int b) = .val (Spec.Arith.plus a b) := by
  show Out.val (plus_n_ii a b) = _
  rw [Lemmas.C07.plus_exact a b ha hb]

theorem minus_exact (a b : Int) (ha : I64 a) (hb : I64 b) :
    evalBinary Gen.bifs_minus_dispositions U (.int a) (.int b) = .val (Spec.Arith.minus a b) := by
  show Out.val (minus_n_ii a b) = _
  rw [Lemmas.C07.minus_exact a b ha hb]

theorem times_exact (a b : Int) (ha : I64 a) (hb : I64 b) :
    evalBinary Gen.bifs_times_dispositions U (.int a) (.int b) = .val (Spec.Arith.times a b) := by
  show Out.val (times_n_ii a b) = _
  rw [Lemmas.C07.times_exact a b ha hb]

/-- `/`: the exact integer quotient when one exists and fits, a float otherwise; zero divisor
gives the IEEE quotient (±Inf/NaN), `-2^63 / -1` a float. -/
theorem divide_exact (a b : Int) (ha : I64 a) (hb : I64 b) :
    evalBinary Gen.bifs_divide_dispositions U (.int a) (.int b) = .val (Spec.Arith.divide a b) := by
  show Out.val (divide_n_ii a b) = _
  rw [Lemmas.C07.divide_exact a b ha hb]

/-- `//` floors. -/
theorem int_divide_floors (a b : Int) (ha : I64 a) (hb : I64 b) :
    evalBinary Gen.bifs_int_divide_dispositions U (.int a) (.int b) = .val (Spec.Arith.intDivide a b) := by
  show Out.val (int_divide_n_ii a b) = _
  rw [Lemmas.C07.int_divide_exact a b ha hb]

/-- `%` takes the divisor's sign (floor modulus). -/
theorem modulus_sign_of_divisor (a b : Int) (ha : I64 a) (hb : I64 b) :
    evalBinary Gen.bifs_modulus_dispositions U (.int a) (.int b) = .val (Spec.Arith.modulus a b) := by
  show Out.val (modulus_i_ii a b) = _
  rw [Lemmas.C07.modulus_exact a b ha hb]

/-- …and the floor modulus really is `0 ≤ r < |b|` with the sign of `b`, `a = b*(a // b) + r`. -/
theorem fmod_spec (a b : Int) (hb : b ≠ 0) :
    a = b * Int.fdiv a b + Int.fmod a b ∧
    (0 < b → 0 ≤ Int.fmod a b ∧ Int.fmod a b < b) ∧ (b < 0 → b < Int.fmod a b ∧ Int.fmod a b ≤ 0) := by
  refine ⟨(Int.mul_fdiv_add_fmod a b).symm, ?_, ?_⟩
  · intro h; exact ⟨Int.fmod_nonneg_of_pos a h, Int.fmod_lt_of_pos a h⟩
  · intro h
    have h1 := @Int.fmod_eq_emod a b
    have h2 := Int.emod_nonneg a hb
    have h3 := Int.emod_lt_of_pos a (show 0 < -b by omega)
    rw [Int.emod_neg] at h3
    by_cases hc : 0 ≤ b ∨ b ∣ a
    · simp only [hc, if_true] at h1
      rcases hc with hc | hc
      · omega
      · have := Int.emod_eq_zero_of_dvd hc; omega
    · simp only [hc, if_false] at h1; omega

/-- The dot operators are 64-bit two's-complement (wrap-around) arithmetic. -/
theorem dot_ops_wrap (a b : Int) :
    evalBinary Gen.bifs_dot_plus_dispositions U (.int a) (.int b) = .val (.int (wrap (a + b))) ∧
    evalBinary Gen.bifs_dotminus_dispositions U (.int a) (.int b) = .val (.int (wrap (a - b))) ∧
    evalBinary Gen.bifs_dottimes_dispositions U (.int a) (.int b) = .val (.int (wrap (a * b))) :=
  ⟨rfl, rfl, rfl⟩

/-- `& | ^` and the three shifts are the `BitVec 64` operations; shift counts are taken as
uint64, counts of 64 and more (incl. negative counts) shift everything out. -/
theorem bits_twos_complement (a b : Int) :
    evalBinary Gen.bifs_bitwise_and_dispositions U (.int a) (.int b) = .val (.int (bv a &&& bv b).toInt) ∧
    evalBinary Gen.bifs_bitwise_or_dispositions U (.int a) (.int b) = .val (.int (bv a ||| bv b).toInt) ∧
    evalBinary Gen.bifs_bitwise_xor_dispositions U (.int a) (.int b) = .val (.int (bv a ^^^ bv b).toInt) ∧
    evalBinary Gen.bifs_left_shift_dispositions U (.int a) (.int b) = .val (lsh a b) ∧
    evalBinary Gen.bifs_signed_right_shift_dispositions U (.int a) (.int b) = .val (srsh a b) ∧
    evalBinary Gen.bifs_unsigned_right_shift_dispositions U (.int a) (.int b) = .val (ursh a b) :=
  ⟨rfl, rfl, rfl, rfl, rfl, rfl⟩

/-- min/max of two ints are ints (the exact min/max). -/
theorem min_max_int (a b : Int) :
    evalBinary Gen.bifs_min_dispositions U (.int a) (.int b) = .val (.int (min a b)) ∧
    evalBinary Gen.bifs_max_dispositions U (.int a) (.int b) = .val (.int (max a b)) := by
  constructor
  · show Out.val (min_i_ii a b) = _
    unfold min_i_ii; congr 2; omega
  · show Out.val (max_i_ii a b) = _
    unfold max_i_ii; congr 2; omega

/-- Mixed int/float operands: the IEEE-754 operation on the converted operands. -/
theorem mixed_is_ieee (a : Int) (x y : Nat) :
    evalBinary Gen.bifs_plus_dispositions U (.int a) (.float y) = .val (.float (F64.add (F64.ofInt a) y)) ∧
    evalBinary Gen.bifs_plus_dispositions U (.float x) (.int a) = .val (.float (F64.add x (F64.ofInt a))) ∧
    evalBinary Gen.bifs_plus_dispositions U (.float x) (.float y) = .val (.float (F64.add x y)) ∧
    evalBinary Gen.bifs_minus_dispositions U (.int a) (.float y) = .val (.float (F64.sub (F64.ofInt a) y)) ∧
    evalBinary Gen.bifs_minus_dispositions U (.float x) (.int a) = .val (.float (F64.sub x (F64.ofInt a))) ∧
    evalBinary Gen.bifs_times_dispositions U (.int a) (.float y) = .val (.float (F64.mul (F64.ofInt a) y)) ∧
    evalBinary Gen.bifs_times_dispositions U (.float x) (.int a) = .val (.float (F64.mul x (F64.ofInt a))) ∧
    evalBinary Gen.bifs_divide_dispositions U (.int a) (.float y) = .val (.float (F64.div (F64.ofInt a) y)) ∧
    evalBinary Gen.bifs_divide_dispositions U (.float x) (.int a) = .val (.float (F64.div x (F64.ofInt a))) ∧
    evalBinary Gen.bifs_divide_dispositions U (.float x) (.float y) = .val (.float (F64.div x y)) :=
  ⟨rfl, rfl, rfl, rfl, rfl, rfl, rfl, rfl, rfl, rfl⟩

/-- madd/msub/mmul/mexp are exact modular arithmetic for every positive int64 modulus and all
int64 operands (no intermediate overflow), and an error value — not a crash — for modulus 0 or a
negative exponent. -/
theorem modops_exact (a b m : Int) (hm : 0 ≤ m) (hm64 : I64 m) :
    modop .add a b m = Spec.Arith.madd a b m ∧
    modop .sub a b m = Spec.Arith.msub a b m ∧
    modop .mul a b m = Spec.Arith.mmul a b m ∧
    (I64 b → modop .exp a b m = Spec.Arith.mexp a b m) := by
  by_cases h0 : m = 0
  · subst h0
    refine ⟨by simp [modop, Spec.Arith.madd], by simp [modop, Spec.Arith.msub], by simp [modop, Spec.Arith.mmul], ?_⟩
    intro _; unfold modop Spec.Arith.mexp; by_cases hb : b < 0 <;> simp [hb]
  · have hpos : 0 < m := by omega
    have h0' : (m == 0) = false := by simp [h0]
    refine ⟨?_, ?_, ?_, ?_⟩
    · simp [modop, Spec.Arith.madd, h0, madd_exact a b m hpos hm64]
    · simp [modop, Spec.Arith.msub, h0, msub_exact a b m hpos hm64]
    · simp [modop, Spec.Arith.mmul, h0, mmul_exact a b m hpos hm64]
    · intro hb64
      unfold modop Spec.Arith.mexp
      by_cases hb : b < 0
      · simp [hb]
      · simp [hb, h0, mexp_exact a b m (by omega) hb64 hpos hm64]

/-- Every cell of every arithmetic/bitwise/min/max table names a function (no nil cell) and no
kernel is routed an operand kind on which its unchecked `Acquire*Value()` type assertion would
panic — for all 12×12 kind pairs of all regenerated binary tables (shared with C08/C18). -/
def acqKindOk : Acq → Nat → Bool
  | .int, 0 => true | .float, 1 => true | .bool, 2 => true
  | .string, 3 => true | .string, 4 => true | .bytes, 5 => true | .array, 6 => true | .map, 7 => true
  | _, _ => false

def tableKindSafe (t : List (List Gen.K)) : Bool :=
  (List.range 12).all fun i => (List.range 12).all fun j =>
    match cell2 t i j with
    | none => false
    | some k => (Gen.kernelSig k).acq1.all (acqKindOk · i) && (Gen.kernelSig k).acq2.all (acqKindOk · j)

theorem cells_kind_safe : Gen.binaryTables.all (fun p => tableKindSafe p.2) = true := by decide

/-- No operands crash the numeric kernels: for int/float operands of every kind combination the
arithmetic tables yield a value (number or error), never a panic. -/
theorem arith_no_panic (a b : Int) (x y : Nat) :
    ∀ t ∈ [Gen.bifs_plus_dispositions, Gen.bifs_minus_dispositions, Gen.bifs_times_dispositions,
           Gen.bifs_divide_dispositions, Gen.bifs_int_divide_dispositions, Gen.bifs_modulus_dispositions,
           Gen.bifs_dot_plus_dispositions, Gen.bifs_dotminus_dispositions, Gen.bifs_dottimes_dispositions,
           Gen.bifs_dotdivide_dispositions, Gen.bifs_min_dispositions, Gen.bifs_max_dispositions],
      (∃ v, evalBinary t U (.int a) (.int b) = .val v) ∧ (∃ v, evalBinary t U (.int a) (.float y) = .val v) ∧
      (∃ v, evalBinary t U (.float x) (.int b) = .val v) ∧ (∃ v, evalBinary t U (.float x) (.float y) = .val v) := by
  intro t ht
  simp only [List.mem_cons, List.mem_nil_iff, or_false] at ht
  rcases ht with h | h | h | h | h | h | h | h | h | h | h | h <;> subst h <;>
    exact ⟨⟨_, rfl⟩, ⟨_, rfl⟩, ⟨_, rfl⟩, ⟨_, rfl⟩⟩

/-! Non-vacuity / boundary witnesses (kernel-evaluated): the former defects now come out right. -/
example : evalBinary Gen.bifs_plus_dispositions U (.int minI64) (.int minI64) = .val (.float 0xc3f0000000000000) := by decide +kernel
example : evalBinary Gen.bifs_minus_dispositions U (.int 0) (.int minI64) = .val (.float 0x43e0000000000000) := by decide +kernel
example : evalBinary Gen.bifs_times_dispositions U (.int 16440948372290153) (.int 561) = .val (.float 0x43dfffffffffffff) := by decide +kernel
example : evalBinary Gen.bifs_times_dispositions U (.int maxI64) (.int 1) = .val (.int maxI64) := by decide
example : evalBinary Gen.bifs_modulus_dispositions U (.int 6) (.int (-3)) = .val (.int 0) := by decide
example : evalBinary Gen.bifs_modulus_dispositions U (.int 7) (.int (-3)) = .val (.int (-2)) := by decide
example : evalBinary Gen.bifs_int_divide_dispositions U (.int (-7)) (.int 2) = .val (.int (-4)) := by decide
example : modop .mul 4611686018427387904 4 7 = .int 2 ∧ modop .exp 10 1 7 = .int 3 ∧ modop .add 5 3 0 = .error := by decide

end Props.C07
end Miller
