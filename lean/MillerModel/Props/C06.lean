/-
C06 — Type inference from data follows the documented number grammar exactly.

Property theorems only (helper lemmas live in Lemmas/C06.lean).  The model (`Model/Scan`,
`Model/Infer`) mirrors pkg/scan and pkg/mlrval/mlrval_infer.go and reads the four digit tables,
the ScanType enum and both inferrer tables from the REGENERATED `Gen/ScanTables.lean`; the spec
(`Spec/NumberGrammar`) is the grammar of the property statement.
-/
import MillerModel.Lemmas.C06
namespace Miller
namespace Props.C06
open Spec.NumberGrammar Scan Infer Lemmas.C06

/-- The regenerated 128-entry byte tables of pkg/scan/digits.go are exactly the documented
character classes, for every byte value (and every `Nat`). -/
theorem scan_tables_correct (c : Nat) :
    Scan.isDecimalDigit c = isDec c ∧ Scan.isOctalDigit c = isOct c ∧
    Scan.isHexDigit c = isHex c ∧ Scan.isFloatDigit c = isFloatChar c :=
  ⟨isDecimalDigit_eq c, isOctalDigit_eq c, isHexDigit_eq c, isFloatDigit_eq c⟩

/-- The hand-written scanner state machine equals the declarative grammar on every string. -/
theorem findScanType_eq_grammar (s : Bytes) : Scan.findScanType s = scanClass s :=
  findScanType_eq s

/-- FULL STATEMENT of the property on the model: for every flag and every field text, inference
yields what the documented grammar says. -/
def C06_infer_eq_classify : Prop := ∀ (f : Flag) (s : Bytes), Infer.infer f s = .ok (classify f s)

/-- Proved part: the statement holds for every flag and every string outside the four finding
classes (`findingClass f s = none`, a decidable predicate: prefixed / leading-zero numerals beyond
int64 and float or integer numerals beyond the double range).  The regenerated inferrer tables enter through the eight `decide`d
table-entry facts, so a re-ordered table breaks this proof. -/
theorem infer_eq_classify_partial (f : Flag) (s : Bytes) (h : findingClass f s = none) :
    Infer.infer f s = .ok (classify f s) := by
  cases f with
  | normal =>
    exact inferWithTable_eq .normal Gen.normalInferrerTable false (Or.inl rfl) rfl
      (by decide) (by decide) (by decide) (by decide) (by decide) (by decide) (by decide) (by decide) s h
  | octal =>
    exact inferWithTable_eq .octal Gen.leadingZeroAsIntInferrerTable true (Or.inr rfl) rfl
      (by decide) (by decide) (by decide) (by decide) (by decide) (by decide) (by decide) (by decide) s h
  | intAsFloat =>
    rw [findingClass_A] at h
    have hn := inferWithTable_eq .normal Gen.normalInferrerTable false (Or.inl rfl) rfl
      (by decide) (by decide) (by decide) (by decide) (by decide) (by decide) (by decide) (by decide) s h
    simp only [Infer.infer, Infer.inferWithIntAsFloat, Infer.inferNormally, hn, classify_A]
    cases classify Flag.normal s <;> rfl
  | stringOnly =>
    simp [Infer.infer, Infer.inferStringOnly, Infer.inferString, Infer.setFromString, classify, strOrVoid]

/-- The code violates the full statement: a prefixed numeral that does not fit in 64 bits is
inferred as a *string*, not a float (witness `0x10000000000000000`; finding
prefixed-int-overflow).  (Decimal numerals beyond 64 bits were the same defect; repaired by a
`fix:` commit in /repo, after which they are floats: see `decimal_overflow_is_float`.) -/
theorem decimal_overflow_is_float :
    Infer.infer .normal (str "99999999999999999999") = .ok (.float 0x4415af1d78b58c40) := by
  decide

theorem C06_infer_eq_classify_counterexample_prefixed :
    Infer.infer .normal (str "0x10000000000000000") ≠ .ok (classify .normal (str "0x10000000000000000")) := by
  decide

/-- Same for float syntax beyond the double range (witness `1e400`; finding float-overflow). -/
theorem C06_infer_eq_classify_counterexample_float :
    Infer.infer .normal (str "1e400") ≠ .ok (classify .normal (str "1e400")) := by
  decide

/-- Same for -O leading-zero numerals (witness `077777777777777777777777`; finding lz-int-overflow). -/
theorem C06_infer_eq_classify_counterexample_lz :
    Infer.infer .octal (str "077777777777777777777777") ≠ .ok (classify .octal (str "077777777777777777777777")) := by
  decide

theorem C06_infer_eq_classify_counterexample : ¬ C06_infer_eq_classify :=
  fun h => C06_infer_eq_classify_counterexample_prefixed (h .normal _)

/-- Inference never panics (every Go slice expression in inferHexInt/inferBaseInt is in range
*because* of the scan class), for every flag and every string — including the finding classes. -/
theorem infer_no_panic (f : Flag) (s : Bytes) : Infer.infer f s ≠ .panic := by
  have hN : ∀ s, Infer.inferNormally s ≠ .panic := fun s =>
    inferWithTable_no_panic Gen.normalInferrerTable false
      (by decide) (by decide) (by decide) (by decide) (by decide) (by decide) (by decide) (by decide) s
  cases f with
  | normal => exact hN s
  | octal =>
    exact inferWithTable_no_panic Gen.leadingZeroAsIntInferrerTable true
      (by decide) (by decide) (by decide) (by decide) (by decide) (by decide) (by decide) (by decide) s
  | intAsFloat =>
    simp only [Infer.infer, Infer.inferWithIntAsFloat]
    have := hN s
    split <;> simp_all
  | stringOnly => simp [Infer.infer, Infer.inferStringOnly, Infer.inferString]

/-- `-S`: every value is a string (or empty). -/
theorem S_all_strings (s : Bytes) :
    Infer.infer .stringOnly s = .ok (if s.isEmpty then .void else .string) := by
  simp [Infer.infer, Infer.inferStringOnly, Infer.inferString, Infer.setFromString]

/-- `-A`: no value is ever inferred as an int. -/
theorem A_no_ints (s : Bytes) (v : Int) : Infer.infer .intAsFloat s ≠ .ok (.int v) := by
  simp only [Infer.infer, Infer.inferWithIntAsFloat]
  split <;> simp_all

/-- JSON string values are never inferred. -/
theorem json_string_never_inferred (s : Bytes) :
    Infer.fromString s = .string ∨ Infer.fromString s = .void := by
  unfold Infer.fromString Infer.setFromString; split <;> simp

/-- The classification depends on the text alone and the empty string is the empty value. -/
theorem empty_is_void (f : Flag) : Infer.infer f [] = .ok .void := by
  cases f <;> decide

/-! Non-vacuity: the hypothesis of the partial theorem is met by ordinary and by boundary inputs,
and the theorem then pins down concrete results. -/
example : findingClass .normal (str "0xff") = none ∧ classify .normal (str "0xff") = .int 255 := by decide
example : findingClass .normal (str "-9223372036854775808") = none ∧
    classify .normal (str "-9223372036854775808") = .int (-9223372036854775808) := by decide
example : findingClass .normal (str "0xffffffffffffffff") = none ∧
    classify .normal (str "0xffffffffffffffff") = .int (-1) := by decide
example : findingClass .octal (str "0377") = none ∧ classify .octal (str "0377") = .int 255 ∧
    classify .normal (str "0377") = .string := by decide
example : findingClass .normal (str "1.5e3") = none ∧
    classify .normal (str "1.5e3") = .float 0x4097700000000000 := by decide
example : classify .normal (str "1_000") = .string ∧ classify .normal (str "Inf") = .string := by decide

end Props.C06
end Miller
