/-
C19 — In-place mode never leaves a file half-written.

The order of the file-system operations of processFileInPlace and the cleanup in its error
branches are REGENERATED from the Go source (`Gen.inPlaceSteps`); the theorems are about the
operation sequences that order produces, for every original content, every transformed content,
every way the transformed bytes are cut into writes, and every crash or failure point.
The run-time half (a real process stopped at each hook point; real error paths) is the T3 part of
the check.
-/
import MillerModel.Model.InPlace
namespace Miller
namespace Props.C19
open InPlace

def content (x : Option (Bytes × Nat)) : Option Bytes := x.map (·.1)

/-- The operations of a successful run, as the regenerated step order yields them: nothing touches
the named file before the rename; the temporary file is created, filled, closed, renamed onto the
named file, whose mode is then restored. -/
theorem success_plan (chunks : List Bytes) (mode : Nat) :
    successOps Gen.inPlaceSteps chunks mode
      = some ([.noop, .noop, .noop, .noop, .createTemp, .noop, .noop] ++ chunks.map .write
              ++ [.noop, .closeTemp, .rename, .chmod mode]) := by
  simp [successOps, Gen.inPlaceSteps, opsOfCall]

def quiet : Op → Bool
  | .noop => true | .closeTemp => true | .chmod _ => true | .write _ => true | .createTemp => true
  | .removeTemp => true | .rename => false

theorem run_append (a b : List Op) (fs : FS) : run (a ++ b) fs = run b (run a fs) := by
  simp [run, List.foldl_append]

theorem quiet_keeps_content (ops : List Op) (fs : FS) (h : ∀ o ∈ ops, quiet o = true) :
    content (run ops fs).f = content fs.f := by
  induction ops generalizing fs with
  | nil => rfl
  | cons o ops ih =>
    have ho := h o (by simp)
    have := ih (apply fs o) (fun p hp => h p (by simp [hp]))
    simp only [run, List.foldl_cons] at this ⊢
    rw [this]
    cases o <;> simp_all [apply, quiet, content] <;> cases fs.f <;> rfl

theorem writes_fill_temp (chunks : List Bytes) (fs : FS) (c : Bytes) (m : Nat) (h : fs.t = some (c, m)) :
    (run (chunks.map .write) fs).t = some (c ++ chunks.flatten, m) ∧ (run (chunks.map .write) fs).f = fs.f := by
  induction chunks generalizing fs c with
  | nil => simp [run, h]
  | cons x xs ih =>
    have := ih (apply fs (.write x)) (c ++ x) (by simp [apply, h])
    simp only [List.map_cons, run, List.foldl_cons, List.flatten_cons] at this ⊢
    rw [this.1, this.2]
    simp [apply, List.append_assoc]

def prefixOps (chunks : List Bytes) : List Op :=
  [.noop, .noop, .noop, .noop, .createTemp, .noop, .noop] ++ chunks.map .write

theorem after_prefix (chunks : List Bytes) (old : Bytes) (om : Nat) :
    run (prefixOps chunks) { f := some (old, om), t := none }
      = { f := some (old, om), t := some (chunks.flatten, 0o600) } := by
  unfold prefixOps
  rw [run_append]
  have h0 : run [Op.noop, .noop, .noop, .noop, .createTemp, .noop, .noop] { f := some (old, om), t := none }
      = { f := some (old, om), t := some ([], 0o600) } := rfl
  rw [h0]
  have := writes_fill_temp chunks { f := some (old, om), t := some ([], 0o600) } [] 0o600 rfl
  cases hr : run (chunks.map .write) { f := some (old, om), t := some ([], 0o600) } with
  | mk f t =>
    rw [hr] at this
    simp only [List.nil_append] at this
    rw [this.1, this.2]

/-- ATOMICITY: stop a successful run after ANY number `k` of its file-system operations (a crash at
any instant, between any two writes): the named file holds either its complete original bytes or
its complete transformed bytes — never a truncated, empty or mixed state.  For every original
content, every transformed content and every cutting of it into writes. -/
theorem atomic_at_every_crash_point (chunks : List Bytes) (old : Bytes) (om mode k : Nat) (ops : List Op)
    (hops : successOps Gen.inPlaceSteps chunks mode = some ops) :
    content (run (ops.take k) { f := some (old, om), t := none }).f = some old ∨
    content (run (ops.take k) { f := some (old, om), t := none }).f = some chunks.flatten := by
  rw [success_plan] at hops
  simp only [Option.some.injEq] at hops
  subst hops
  rw [show ([Op.noop, .noop, .noop, .noop, .createTemp, .noop, .noop] ++ chunks.map Op.write
            ++ [Op.noop, .closeTemp, .rename, .chmod mode])
        = prefixOps chunks ++ [Op.noop, .closeTemp, .rename, .chmod mode] from rfl]
  by_cases hk : k ≤ (prefixOps chunks).length
  · left
    rw [List.take_append_of_le_length hk]
    rw [quiet_keeps_content]
    · rfl
    · intro o ho
      have := List.mem_of_mem_take ho
      unfold prefixOps at this
      have hq : ∀ o ∈ [Op.noop, Op.noop, Op.noop, Op.noop, Op.createTemp, Op.noop, Op.noop], quiet o = true := by decide
      rcases List.mem_append.mp this with h | h
      · exact hq o h
      · obtain ⟨c, _, rfl⟩ := List.mem_map.mp h; rfl
  · have : ∃ j, k = (prefixOps chunks).length + j := ⟨k - (prefixOps chunks).length, by omega⟩
    obtain ⟨j, rfl⟩ := this
    rw [List.take_length_add_append, run_append, after_prefix]
    match j with
    | 0 => left; rfl
    | 1 => left; rfl
    | 2 => left; rfl
    | 3 => right; rfl
    | j + 4 =>
      right
      have : List.take (j + 4) [Op.noop, .closeTemp, .rename, .chmod mode] = [Op.noop, .closeTemp, .rename, .chmod mode] := by
        simp [List.take]
      rw [this]; rfl

/-- After the complete run the named file holds the transformed bytes with its ORIGINAL mode, and
no temporary file remains. -/
theorem success_result (chunks : List Bytes) (old : Bytes) (om : Nat) (ops : List Op)
    (hops : successOps Gen.inPlaceSteps chunks om = some ops) :
    run ops { f := some (old, om), t := none } = { f := some (chunks.flatten, om), t := none } := by
  rw [success_plan] at hops
  simp only [Option.some.injEq] at hops
  subst hops
  show run (prefixOps chunks ++ [.noop, .closeTemp, .rename, .chmod om]) _ = _
  rw [run_append, after_prefix]
  rfl

/-- ERROR PATHS: whichever checked call fails — with, for stream.Stream, any number `j` of the
writes already done — the run ends with NO temporary file left behind and the named file complete:
the original bytes if the failure precedes the rename, the transformed bytes otherwise. -/
theorem error_paths_clean (chunks : List Bytes) (old : Bytes) (om mode i j : Nat) (ops : List Op)
    (hchecked : (Gen.inPlaceSteps[i]?.map (·.2.1)) = some true)
    (hops : failureOps Gen.inPlaceSteps chunks mode i
              (if Gen.inPlaceSteps[i]?.map (·.1) = some "stream.Stream" then (chunks.take j).map .write else [])
            = some ops) :
    (run ops { f := some (old, om), t := none }).t = none ∧
    (content (run ops { f := some (old, om), t := none }).f = some old ∨
     (i = 11 ∧ content (run ops { f := some (old, om), t := none }).f = some chunks.flatten)) := by
  have hp : ∀ (ws : List Bytes), run ([Op.noop, .noop, .noop, .noop, .createTemp, .noop, .noop] ++ ws.map .write)
      { f := some (old, om), t := none } = { f := some (old, om), t := some (ws.flatten, 0o600) } := fun ws => after_prefix ws old om
  match i with
  | 0 | 1 | 2 | 3 | 4 =>
    simp [failureOps, Gen.inPlaceSteps, opsOfCall] at hops
    subst hops
    exact ⟨rfl, Or.inl rfl⟩
  | 5 => simp [Gen.inPlaceSteps] at hchecked
  | 6 =>
    simp [failureOps, Gen.inPlaceSteps, opsOfCall] at hops
    subst hops
    exact ⟨rfl, Or.inl rfl⟩
  | 7 =>
    simp [failureOps, Gen.inPlaceSteps, opsOfCall] at hops
    subst hops
    have := hp (chunks.take j)
    simp only [List.cons_append, List.nil_append, List.map_take] at this
    rw [show (Op.noop :: .noop :: .noop :: .noop :: .createTemp :: .noop :: .noop :: (List.take j (chunks.map Op.write) ++ [Op.removeTemp]))
          = (Op.noop :: .noop :: .noop :: .noop :: .createTemp :: .noop :: .noop :: List.take j (chunks.map Op.write)) ++ [Op.removeTemp] by simp]
    rw [run_append, this]
    exact ⟨rfl, Or.inl rfl⟩
  | 8 | 9 | 10 | 11 =>
    simp [failureOps, Gen.inPlaceSteps, opsOfCall] at hops
    subst hops
    have := hp chunks
    simp only [List.cons_append, List.nil_append] at this
    first
      | (rw [show ∀ (tl : List Op), (Op.noop :: .noop :: .noop :: .noop :: .createTemp :: .noop :: .noop :: (chunks.map Op.write ++ tl))
              = (Op.noop :: .noop :: .noop :: .noop :: .createTemp :: .noop :: .noop :: chunks.map Op.write) ++ tl by intro tl; simp]
         rw [run_append, this]
         exact ⟨rfl, by first | exact Or.inl rfl | exact Or.inr ⟨rfl, rfl⟩⟩)
  | n + 12 =>
    have : Gen.inPlaceSteps[n + 12]? = none := by
      apply List.getElem?_eq_none
      simp [Gen.inPlaceSteps]
    rw [this] at hchecked
    simp at hchecked

/-! Non-vacuity: the premises are met, e.g. failure of stream.Stream after one of two writes. -/
example : (failureOps Gen.inPlaceSteps [[1], [2]] 0o644 7 [.write [1]]).isSome = true := by decide
example : (successOps Gen.inPlaceSteps [[1], [2]] 0o644).isSome = true := by decide

end Props.C19
end Miller
