/-
C17 — Failures are never silent: every fault gives non-zero exit and a diagnostic.

What is proved: the error-delivery protocol between a failing verb, the writer and `Stream`
(Model/ErrorProtocol.lean), for EVERY interleaving of their atomic actions, from the two facts
regenerated from the source.  What is exercised on the real binary (T3): fault kinds x positions x
batch sizes x scheduling perturbation seeds -> non-zero exit and a diagnostic.
-/
import MillerModel.Model.ErrorProtocol
import MillerModel.Gen.Facts
namespace Miller
namespace Props.C17
open ErrorProtocol

/-- The facts as the current source has them. -/
def sourceFacts : Facts :=
  { errorBeforeMarker := Gen.errorSendBeforeMarkerForward,
    finalDrain := Gen.streamFinalDrains.contains "dataProcessingErrorChannel" }

/-- The regenerated facts: error posted before the marker is forwarded; both error channels are
drained after the loop; the final flush error is not dropped; the error channel is buffered, so
the non-blocking send of the first error always succeeds. -/
theorem source_facts_hold :
    Gen.errorSendBeforeMarkerForward = true ∧
    Gen.streamFinalDrains.contains "dataProcessingErrorChannel" = true ∧
    Gen.streamFinalDrains.contains "inputErrorChannel" = true ∧
    Gen.streamFlushErrorChecked = true ∧
    1 ≤ Gen.dataErrorChannelCapacity := by decide

structure Inv (s : PState) : Prop where
  markerPosted : s.marker = true → s.posted = true
  doneMarker : s.doneSig = true → s.marker = true
  phaseDone : 1 ≤ s.phase → s.doneSig = true
  held : s.posted = true → s.errBuf = true ∨ s.retval = true
  returned : s.phase = 2 → s.retval = true

theorem inv_reach (f : Facts) (h1 : f.errorBeforeMarker = true) (h2 : f.finalDrain = true)
    (s : PState) (hr : Reach f s) : Inv s := by
  induction hr with
  | init => exact ⟨by decide, by decide, by decide, by decide, by decide⟩
  | step s t _ hst ih =>
    cases hst with
    | post hp =>
      exact ⟨fun _ => rfl, ih.doneMarker, ih.phaseDone, fun _ => Or.inl rfl, ih.returned⟩
    | forward hm hg =>
      exact ⟨fun _ => hg h1, fun hd => rfl, ih.phaseDone, ih.held, ih.returned⟩
    | writerDone hm hd =>
      exact ⟨ih.markerPosted, fun _ => hm, fun _ => rfl, ih.held, ih.returned⟩
    | recvErr hp he =>
      exact ⟨ih.markerPosted, ih.doneMarker, ih.phaseDone, fun _ => Or.inr rfl, fun _ => rfl⟩
    | recvDone hp hd =>
      refine ⟨ih.markerPosted, ih.doneMarker, fun _ => hd, ih.held, ?_⟩
      intro h; simp at h
    | drain hp =>
      have hdone := ih.phaseDone (by omega)
      have hposted := ih.markerPosted (ih.doneMarker hdone)
      refine ⟨ih.markerPosted, ih.doneMarker, fun _ => hdone, ?_, ?_⟩
      · intro _
        rcases ih.held hposted with h | h
        · right; simp [h, h2]
        · right; simp [h]
      · intro _
        rcases ih.held hposted with h | h
        · simp [h, h2]
        · simp [h]

/-- NO SILENT FAILURE, for every interleaving: when a verb fails, in whatever order the scheduler
runs the failing verb's sends, the writer's done signal and Stream's select cases, `Stream` never
returns nil — so the entrypoint exits non-zero with the diagnostic.  Holds for the regenerated facts. -/
theorem stream_returns_the_error (s : PState) (hr : Reach sourceFacts s) (hret : s.phase = 2) :
    s.retval = true :=
  (inv_reach sourceFacts (by decide) (by decide) s hr).returned hret

/-- Why the ordering fact matters: were the marker forwarded before the error is posted, there is
a schedule on which Stream returns nil although the verb failed (the failure would be silent). -/
theorem marker_before_error_can_be_silent :
    ∃ s, Reach { errorBeforeMarker := false, finalDrain := true } s ∧ s.phase = 2 ∧ s.retval = false := by
  let f : Facts := { errorBeforeMarker := false, finalDrain := true }
  have r0 : Reach f {} := Reach.init
  have r1 := Reach.step _ _ r0 (Step.forward (f := f) {} rfl (by intro h; cases h))
  have r2 := Reach.step _ _ r1 (Step.writerDone (f := f) _ rfl rfl)
  have r3 := Reach.step _ _ r2 (Step.recvDone (f := f) _ rfl rfl)
  have r4 := Reach.step _ _ r3 (Step.drain (f := f) _ rfl)
  exact ⟨_, r4, rfl, rfl⟩

/-- … and why the final drain matters: without it, an error posted after Stream's last look at
the channel but before the done signal is lost. -/
theorem no_final_drain_can_be_silent :
    ∃ s, Reach { errorBeforeMarker := true, finalDrain := false } s ∧ s.phase = 2 ∧ s.retval = false := by
  let f : Facts := { errorBeforeMarker := true, finalDrain := false }
  have r0 : Reach f {} := Reach.init
  have r1 := Reach.step _ _ r0 (Step.post (f := f) {} rfl)
  have r2 := Reach.step _ _ r1 (Step.forward (f := f) _ rfl (fun _ => rfl))
  have r3 := Reach.step _ _ r2 (Step.writerDone (f := f) _ rfl rfl)
  have r4 := Reach.step _ _ r3 (Step.recvDone (f := f) _ rfl rfl)
  have r5 := Reach.step _ _ r4 (Step.drain (f := f) _ rfl)
  exact ⟨_, r5, rfl, rfl⟩

/-- Non-vacuity: a returning state is reachable under the source facts (post, recvErr, forward,
writerDone, recvDone, drain). -/
example : ∃ s, Reach sourceFacts s ∧ s.phase = 2 := by
  have r0 : Reach sourceFacts {} := Reach.init
  have r1 := Reach.step _ _ r0 (Step.post (f := sourceFacts) {} rfl)
  have r2 := Reach.step _ _ r1 (Step.recvErr (f := sourceFacts) _ rfl rfl)
  have r3 := Reach.step _ _ r2 (Step.forward (f := sourceFacts) _ rfl (fun _ => rfl))
  have r4 := Reach.step _ _ r3 (Step.writerDone (f := sourceFacts) _ rfl rfl)
  have r5 := Reach.step _ _ r4 (Step.recvDone (f := sourceFacts) _ rfl rfl)
  have r6 := Reach.step _ _ r5 (Step.drain (f := sourceFacts) _ rfl)
  exact ⟨_, r6, rfl⟩

end Props.C17
end Miller
