/-
C03 — Fields a chain does not assign pass through byte-for-byte.
-/
import MillerModel.Model.Mlrval
import MillerModel.Gen.Facts
namespace Miller
namespace Props.C03
open Mlrval Infer

/-- The invariant: the original text is retained and marked valid. -/
def Keeps (s : Bytes) (c : Cell) : Prop := c.printrep = s ∧ c.valid = true

theorem inferCell_keeps (f : Flag) (s : Bytes) (c : Cell) (h : Keeps s c) : Keeps s (inferCell f c) := by
  unfold inferCell
  split
  · exact h
  · split <;> first | exact h | exact ⟨h.1, rfl⟩

theorem setPrintRep_keeps (s : Bytes) (c : Cell) (h : Keeps s c) : Keeps s (setPrintRep c) := by
  unfold setPrintRep; simp [h.2]; exact h

theorem applyRead_keeps (f : Flag) (s : Bytes) (c : Cell) (op : ReadOp) (h : Keeps s c) :
    Keeps s (applyRead f c op) := by
  cases op
  · exact inferCell_keeps f s c h
  · exact inferCell_keeps f s c h
  · exact setPrintRep_keeps s _ (inferCell_keeps f s c h)
  · exact h
  · exact h

/-- For EVERY field text, every inference flag and every sequence of read operations (type
tests, numeric reads, string reads, copies — in any order, any number), the value is written
with exactly the text it had on input. -/
theorem read_ops_preserve_text (f : Flag) (s : Bytes) (ops : List ReadOp) :
    stringOf f (ops.foldl (applyRead f) (fromDeferred s)) = s := by
  have h0 : Keeps s (fromDeferred s) := ⟨rfl, rfl⟩
  have : ∀ (c : Cell), Keeps s c → Keeps s (ops.foldl (applyRead f) c) := by
    induction ops with
    | nil => intro c h; exact h
    | cons op rest ih => intro c h; exact ih _ (applyRead_keeps f s c op h)
  have hk := this _ h0
  exact (setPrintRep_keeps s _ (inferCell_keeps f s _ hk)).1

/-- The set of functions in pkg/mlrval that can write the retained text is exactly the reviewed
one: constructors, the three inference setters, `String` (collections only), `setPrintRep`
(only when no text is valid), whole-value overwrites in `PutIndexed`/`UnmarshalJSON`, the record
arena.  No accessor, comparator, `Type()`, `Copy()` or inferrer is in it.  REGENERATED fact. -/
theorem printrep_write_set :
    Gen.printrepWriters =
      ["<package-level literal in mlrval_constants.go>", "FromAnonymousError", "FromArray", "FromBytes",
       "FromDeferredType", "FromError", "FromErrorString", "FromFloat", "FromFunction", "FromInferredType",
       "FromInt", "FromIntShowingOctal", "FromMap", "FromPending", "FromString", "Mlrval.PutIndexed(*recv=)",
       "Mlrval.SetFromPrevalidatedFloatString", "Mlrval.SetFromPrevalidatedIntString", "Mlrval.SetFromString",
       "Mlrval.String", "Mlrval.UnmarshalJSON(*recv=)", "Mlrval.setPrintRep", "RecordArena.newValue"] := by
  decide

/-- Every inference setter call in mlrval_infer.go stores back the value's own text
(`mv.printrep`), never a re-rendering.  REGENERATED fact. -/
theorem infer_setters_keep_text :
    Gen.inferSetterCalls ≠ [] ∧ Gen.inferSetterCalls.all (fun c => c.2.2 == "mv.printrep") = true := by
  decide

/-! Non-vacuity -/
example : stringOf .normal ([ReadOp.numeric, .string, .typeOf, .copy].foldl (applyRead .normal) (fromDeferred (str "0x1F")))
    = str "0x1F" := by decide
example : (inferCell .normal (fromDeferred (str "0x1F"))).typ = .int ∧ (inferCell .normal (fromDeferred (str "0x1F"))).intv = 31 := by decide

end Props.C03
end Miller
