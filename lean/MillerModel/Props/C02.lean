/-
C02 — Format conversion changes syntax only; nesting flattens/unflattens losslessly.

Part 1 (this file, section "flatten"): the flatten/unflatten model (`Model/Flatten.lean`, tied to
Mlrmap.Flatten / CopyUnflattened on JSON values by the `flat` correspondence) and the round-trip
theorem with its domain stated as explicit decidable conditions.
Part 2 (section "flags"): the separator-alias and default-separator tables REGENERATED from
pkg/cli/separators.go and the flag list regenerated from pkg/cli/option_parse.go, with the
documented expansions as a Lean table; the equivalence "flag = expansion" itself is checked on the
real option parser (in-process, deep equality of the parsed option structures).
-/
import MillerModel.Model.Flatten
import MillerModel.Lemmas.C01
namespace Miller
namespace Props.C02
open Flatten

/-! ### flatten -/

def keysOf (d : Doc) : List (List Bytes × Leaf) := d.map fun e => (e.1.map (·.key), e.2)

/-- The collections that flatten/unflatten represents faithfully, for separator byte `sep`:
every key is non-empty and free of the separator; no scalar is the text of a sentinel; the leaves
are listed in tree order; and a node is tagged as an array exactly when its children's keys are
1..n in order (so: arrays are arrays, and no MAP has the keys 1..n — such a map comes back as an
array, the documented lossy corner). All four are decidable predicates on the document alone. -/
structure Representable (sep : Nat) (d : Doc) : Prop where
  keys : ∀ e ∈ d, e.1 ≠ [] ∧ ∀ c ∈ e.1, c.key ≠ [] ∧ sep ∉ c.key
  scalars : ∀ e ∈ d, ∀ s, e.2 = .scalar s → s ≠ [123, 125] ∧ s ≠ [91, 93]
  treeOrder : regroup (((keysOf d).map (·.1.length)).foldl max 0 + 1) 0 (keysOf d) = keysOf d
  tags : ∀ e ∈ d, tagPath ((keysOf d).map (·.1)) (e.1.map (·.key)) = e.1

theorem join_contains_sep (b : Nat) (x y : Bytes) (r : List Bytes) : (Split.join [b] (x :: y :: r)).contains b = true := by
  simp [Split.join]

theorem keyPath_join (sep : Nat) (ks : List Bytes) (hne : ks ≠ []) (h : ∀ k ∈ ks, k ≠ [] ∧ sep ∉ k) :
    keyPath sep (Split.join [sep] ks) = ks := by
  unfold keyPath
  cases ks with
  | nil => exact absurd rfl hne
  | cons x rest =>
    cases rest with
    | nil =>
      have hx := (h x (by simp)).2
      have hj : Split.join [sep] [x] = x := rfl
      have : x.contains sep = false := by simpa using hx
      rw [hj]
      simp only [this, Bool.false_eq_true, if_false]
    | cons y r =>
      have hc := join_contains_sep sep x y r
      have hs := Lemmas.C01.splitByte_join sep (x :: y :: r) (by simp) (fun z hz => (h z hz).2) []
      simp only [List.nil_append, List.head_cons, List.tail_cons] at hs
      simp only [hc, if_true, hs]
      have hall : (x :: y :: r).all (fun p => !p.isEmpty) = true := by
        apply List.all_eq_true.mpr
        intro p hp
        have := (h p hp).1
        cases p with
        | nil => exact absurd rfl this
        | cons _ _ => rfl
      simp only [hall, if_true]

theorem terminal_leafText (l : Leaf) (h : ∀ s, l = .scalar s → s ≠ [123, 125] ∧ s ≠ [91, 93]) :
    terminal (leafText l) = l := by
  cases l with
  | scalar s =>
    have := h s rfl
    simp [terminal, leafText, this.1, this.2]
  | emptyMap => rfl
  | emptyArr => rfl

/-- ROUND TRIP: flattening a representable nested record and unflattening the result gives the
record back — same leaves, same paths, same map/array structure, same order — for records of any
width and nesting depth. -/
theorem unflatten_flatten (sep : Nat) (d : Doc) (h : Representable sep d) : unflatten sep (flatten sep d) = d := by
  have hraw : (flatten sep d).map (fun p => (keyPath sep p.1, terminal p.2)) = keysOf d := by
    unfold flatten keysOf
    rw [List.map_map]
    apply List.map_congr_left
    intro e he
    simp only [Function.comp]
    have hk := h.keys e he
    rw [keyPath_join sep (e.1.map (·.key)) (by simpa using hk.1)
        (by intro k hk'; obtain ⟨c, hc, rfl⟩ := List.mem_map.mp hk'; exact hk.2 c hc),
      terminal_leafText e.2 (h.scalars e he)]
  unfold unflatten
  simp only [hraw, h.treeOrder]
  have : ∀ l : Doc, (∀ e ∈ l, e ∈ d) →
      (keysOf l).map (fun e => (tagPath ((keysOf d).map (·.1)) e.1, e.2)) = l := by
    intro l
    induction l with
    | nil => intro _; rfl
    | cons e es ih =>
      intro hl
      have ht := h.tags e (hl e (by simp))
      have ih' := ih (fun x hx => hl x (by simp [hx]))
      simp only [keysOf, List.map_cons] at ih' ht ⊢
      rw [ht, ih']
  exact this d (fun e he => he)

/-- The documented lossy corner is real: a MAP whose keys are 1..n is not representable — it
comes back as an array. -/
theorem map_with_index_keys_comes_back_as_array :
    unflatten 46 (flatten 46 [([⟨str "a", false⟩, ⟨str "1", false⟩], .scalar (str "x")),
                              ([⟨str "a", false⟩, ⟨str "2", false⟩], .scalar (str "y"))])
      = [([⟨str "a", false⟩, ⟨str "1", true⟩], .scalar (str "x")),
         ([⟨str "a", false⟩, ⟨str "2", true⟩], .scalar (str "y"))] := by decide

/-! Non-vacuity: a three-level record with an array, an empty map and an empty array is representable. -/
def sample : Doc := [([⟨str "a", false⟩], .scalar (str "1")),
  ([⟨str "b", false⟩, ⟨str "x", false⟩], .scalar (str "2")),
  ([⟨str "b", false⟩, ⟨str "y", false⟩, ⟨str "1", true⟩], .scalar (str "3")),
  ([⟨str "b", false⟩, ⟨str "y", false⟩, ⟨str "2", true⟩], .emptyMap),
  ([⟨str "c", false⟩], .emptyArr)]
example : unflatten 46 (flatten 46 sample) = sample := by decide
example : flatten 46 sample = [(str "a", str "1"), (str "b.x", str "2"), (str "b.y.1", str "3"), (str "b.y.2", str "{}"), (str "c", str "[]")] := by decide

end Props.C02
end Miller
