/-
C20 — Fan-out outputs are complete, ordered, well-formed for any number of targets.

Model: `Model/Fanout.lean`, the LRU handle cache of pkg/output/file_output_handlers.go with the
capacity REGENERATED from the source (`Gen.lruFileHandlerCapacity`); tied to the real
`MultiOutputHandlerManager` by the `fanout` correspondence (real files, real writers).
The theorems quantify over EVERY history of (target, record) writes, every capacity, both modes.
-/
import MillerModel.Lemmas.C20
import MillerModel.Gen.Consts
namespace Miller
namespace Props.C20
open Fanout Lemmas.C20

/-- Final files after a history, starting with the files `f0` already on disk. -/
def finalFiles (cap : Nat) (am : Bool) (f0 : Files) (hist : List (Nat × Rec)) : Files :=
  (run cap am { files := f0 } hist).files

/-- COMPLETE AND ORDERED, for every history, capacity and mode — evictions and re-opens included:
the records held by a target's file, read document after document, are exactly the records
routed to that target, in stream order (after the file's previous contents in append mode;
replacing them in write mode). -/
theorem every_target_gets_its_records (cap : Nat) (am : Bool) (f0 : Files) (hist : List (Nat × Rec)) (t : Nat)
    (h : routed hist t ≠ []) :
    (docsOf (finalFiles cap am f0 hist) t).flatten
      = (if am then (docsOf f0 t).flatten else []) ++ routed hist t := by
  have := inv_run cap am f0 { files := f0 } [] hist (inv_init am f0)
  simp only [List.nil_append] at this
  exact this.content t h

/-- A target nothing was routed to is left exactly as it was. -/
theorem untouched_targets_unchanged (cap : Nat) (am : Bool) (f0 : Files) (hist : List (Nat × Rec)) (t : Nat)
    (h : routed hist t = []) : docsOf (finalFiles cap am f0 hist) t = docsOf f0 t := by
  have := inv_run cap am f0 { files := f0 } [] hist (inv_init am f0)
  simp only [List.nil_append] at this
  exact (this.fresh t h).1

/-! ### one document per target -/

/-- FULL STATEMENT (write mode, fresh directory): every target's file is ONE document holding the
records routed to it. -/
def C20_one_document (cap : Nat) : Prop :=
  ∀ (hist : List (Nat × Rec)) (t : Nat), routed hist t ≠ [] →
    docsOf (finalFiles cap false [] hist) t = [routed hist t]

theorem nodup_length_le (l D : List Nat) (hn : l.Nodup) (hs : ∀ x ∈ l, x ∈ D) : l.length ≤ D.length := by
  induction l generalizing D with
  | nil => simp
  | cons x l ih =>
    have hx : x ∈ D := hs x (by simp)
    have hn' := List.nodup_cons.mp hn
    have := ih (D.erase x) hn'.2 (fun y hy => by
      have hyx : y ≠ x := by intro he; subst he; exact hn'.1 hy
      exact (List.mem_erase_of_ne hyx).mpr (hs y (by simp [hy])))
    rw [List.length_erase_of_mem hx] at this
    have hpos : 0 < D.length := List.length_pos_of_mem hx
    simp only [List.length_cons]
    omega

theorem appendLast_snoc (ds : List Doc) (d : Doc) (r : Rec) : appendLast (ds ++ [d]) r = ds ++ [d ++ [r]] := by
  induction ds with
  | nil => rfl
  | cons e es ih =>
    cases es with
    | nil => simp [appendLast]
    | cons f fs =>
      simp only [List.cons_append, appendLast] at ih ⊢
      rw [ih]

structure WInv (am : Bool) (f0 : Files) (D : List Nat) (s : St) (seen : List (Nat × Rec)) : Prop where
  noEvict : s.evicted = []
  nodup : s.openT.Nodup
  sub : ∀ t ∈ s.openT, t ∈ D
  one : ∀ t, routed seen t ≠ [] → t ∈ s.openT ∧
          docsOf s.files t = (if am then docsOf f0 t else []) ++ [routed seen t]
  fresh : ∀ t, routed seen t = [] → docsOf s.files t = docsOf f0 t ∧ t ∉ s.openT

theorem winv_step (cap : Nat) (am : Bool) (f0 : Files) (D : List Nat) (hD : D.length ≤ cap)
    (s : St) (seen : List (Nat × Rec)) (t : Nat) (r : Rec) (ht : t ∈ D)
    (h : WInv am f0 D s seen) : WInv am f0 D (write cap am s t r) (seen ++ [(t, r)]) := by
  have hsame := routed_snoc_same seen t r
  have hne_t : routed (seen ++ [(t, r)]) t ≠ [] := by rw [hsame]; simp
  unfold write
  by_cases ho : s.openT.contains t = true
  · simp only [ho, if_true]
    have hto : t ∈ s.openT := by simpa using ho
    have hro : routed seen t ≠ [] := by intro he; exact (h.fresh t he).2 hto
    refine ⟨h.noEvict, ?_, ?_, ?_, ?_⟩
    · exact List.nodup_cons.mpr ⟨fun hm => (List.Nodup.mem_erase_iff h.nodup).mp hm |>.1 rfl, h.nodup.erase t⟩
    · intro t' ht'
      rcases List.mem_cons.mp ht' with h1 | h1
      · rw [h1]; exact ht
      · exact h.sub t' (List.mem_of_mem_erase h1)
    · intro t' ht'
      by_cases htt : t' = t
      · subst htt
        refine ⟨by simp, ?_⟩
        simp only
        rw [docsOf_setDocs_same, (h.one t' hro).2, appendLast_snoc, hsame]
      · rw [routed_snoc_other seen t t' r htt] at ht' ⊢
        refine ⟨List.mem_cons_of_mem _ ((List.mem_erase_of_ne htt).mpr (h.one t' ht').1), ?_⟩
        simp only
        rw [docsOf_setDocs_other _ _ _ _ htt]; exact (h.one t' ht').2
    · intro t' ht'
      have htt : t' ≠ t := by intro he; subst he; exact hne_t ht'
      rw [routed_snoc_other seen t t' r htt] at ht'
      have hf := h.fresh t' ht'
      refine ⟨by simp only; rw [docsOf_setDocs_other _ _ _ _ htt]; exact hf.1, ?_⟩
      intro hm
      rcases List.mem_cons.mp hm with h1 | h1
      · exact htt h1
      · exact hf.2 (List.mem_of_mem_erase h1)
  · have ho' : s.openT.contains t = false := by simpa using ho
    have hto : t ∉ s.openT := by simpa using ho'
    simp only [ho', Bool.false_eq_true, if_false]
    -- no eviction: the open list plus the new target is duplicate-free inside D
    have hlen : s.openT.length < cap := by
      have := nodup_length_le (t :: s.openT) D (List.nodup_cons.mpr ⟨hto, h.nodup⟩)
        (by intro x hx; rcases List.mem_cons.mp hx with h1 | h1
            · rw [h1]; exact ht
            · exact h.sub x h1)
      simp only [List.length_cons] at this
      omega
    have hev : evictStep cap s.openT [] = (s.openT, []) := by
      unfold evictStep
      have : ¬ s.openT.length ≥ cap := by omega
      simp [this]
    have hro : routed seen t = [] := by
      apply Classical.byContradiction
      intro hne; exact hto (h.one t hne).1
    simp only [h.noEvict, hev, List.contains_nil, Bool.or_false, List.filter_nil]
    refine ⟨rfl, List.nodup_cons.mpr ⟨hto, h.nodup⟩, ?_, ?_, ?_⟩
    · intro t' ht'
      rcases List.mem_cons.mp ht' with h1 | h1
      · rw [h1]; exact ht
      · exact h.sub t' h1
    · intro t' ht'
      by_cases htt : t' = t
      · subst htt
        refine ⟨by simp, ?_⟩
        simp only
        rw [docsOf_setDocs_same, hsame, hro, (h.fresh t' hro).1]
        cases am <;> simp
      · rw [routed_snoc_other seen t t' r htt] at ht' ⊢
        refine ⟨List.mem_cons_of_mem _ (h.one t' ht').1, ?_⟩
        simp only
        rw [docsOf_setDocs_other _ _ _ _ htt]; exact (h.one t' ht').2
    · intro t' ht'
      have htt : t' ≠ t := by intro he; subst he; exact hne_t ht'
      rw [routed_snoc_other seen t t' r htt] at ht'
      have hf := h.fresh t' ht'
      refine ⟨by simp only; rw [docsOf_setDocs_other _ _ _ _ htt]; exact hf.1, ?_⟩
      intro hm
      rcases List.mem_cons.mp hm with h1 | h1
      · exact htt h1
      · exact hf.2 h1

theorem winv_run (cap : Nat) (am : Bool) (f0 : Files) (D : List Nat) (hD : D.length ≤ cap)
    (s : St) (seen hist : List (Nat × Rec)) (hh : ∀ w ∈ hist, w.1 ∈ D)
    (h : WInv am f0 D s seen) : WInv am f0 D (run cap am s hist) (seen ++ hist) := by
  induction hist generalizing s seen with
  | nil => simpa [run] using h
  | cons w hist ih =>
    have := ih (write cap am s w.1 w.2) (seen ++ [(w.1, w.2)]) (fun v hv => hh v (by simp [hv]))
      (winv_step cap am f0 D hD s seen w.1 w.2 (hh w (by simp)) h)
    simpa [run] using this

/-- PROVED PART: when the history names no more distinct targets than the handle cache holds
(`D` lists them), every target's file is ONE document — after the previous contents in append
mode — holding exactly the records routed to it in stream order; for histories of every length
and every revisit pattern. -/
theorem one_document_partial (cap : Nat) (am : Bool) (f0 : Files) (D : List Nat) (hD : D.length ≤ cap)
    (hist : List (Nat × Rec)) (hh : ∀ w ∈ hist, w.1 ∈ D) (t : Nat) (h : routed hist t ≠ []) :
    docsOf (finalFiles cap am f0 hist) t = (if am then docsOf f0 t else []) ++ [routed hist t] := by
  have hw : WInv am f0 D { files := f0 } [] :=
    ⟨rfl, by simp, by simp, by intro t h; simp [routed] at h, by intro t _; simp⟩
  have := winv_run cap am f0 D hD { files := f0 } [] hist hh hw
  simp only [List.nil_append] at this
  exact (this.one t h).2

/-- The real capacity. -/
theorem one_document_up_to_capacity (hist : List (Nat × Rec)) (D : List Nat)
    (hD : D.length ≤ Gen.lruFileHandlerCapacity) (hh : ∀ w ∈ hist, w.1 ∈ D) (t : Nat) (h : routed hist t ≠ []) :
    docsOf (finalFiles Gen.lruFileHandlerCapacity false [] hist) t = [routed hist t] := by
  have := one_document_partial Gen.lruFileHandlerCapacity false [] D hD hist hh t h
  simpa using this

/-- The full statement FAILS as soon as a target is revisited after its handle was evicted: with
capacity `c`, writing to targets 0..c and then to target 0 again leaves target 0 with two
documents (finding evicted-target-revisited; shown here for c = 2, replayed on the implementation
with 257 targets). -/
theorem C20_one_document_counterexample : ¬ C20_one_document 2 := by
  intro h
  have := h [(0, [(str "v", str "a")]), (1, [(str "v", str "b")]), (2, [(str "v", str "c")]), (0, [(str "v", str "d")])] 0 (by decide)
  revert this; decide

/-! Non-vacuity -/
example : docsOf (finalFiles 2 false [] [(0, [(str "v", str "a")]), (1, [(str "v", str "b")]), (0, [(str "v", str "c")])]) 0
    = [[[(str "v", str "a")], [(str "v", str "c")]]] := by decide

end Props.C20
end Miller
