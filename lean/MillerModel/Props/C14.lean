/-
C14 — put/filter programs mean what the language reference says.

The reference interpreter is `Model/DSL.lean` (total, fuel-indexed); it is tied to the real `mlr` by
the `dsl` correspondence (same program TEXT and input to both; byte-equal standard output).  The
theorems below are the clauses of the property that are laws of the interpreter's building blocks:
operator precedence (the grammar's levels REGENERATED from mlr.bnf equal the documented table),
block scoping and type enforcement of the frame stack, by-value calls, record-field positions, the
documented truth tables of `&&`/`||`, 1-up indexing with negative aliases, auto-create / auto-extend,
and emit-by-names as the grouping it stands for.
-/
import MillerModel.Model.DSL
import MillerModel.Gen.Grammar
import MillerModel.Lemmas.C14Interp
import MillerModel.Lemmas.C14Typed
import MillerModel.Lemmas.C14Output
import MillerModel.Lemmas.C14Context
namespace Miller
namespace Props.C14
open DSL

/-! ### precedence -/

def sameOps (a b : List String) : Bool := a.all b.contains && b.all a.contains

/-- mlr.bnf's levels, dot variants set aside, and unary `.+`/`.-` aside. -/
def bnfDocumentedPart : List (List String × String) :=
  Gen.bnfPrecedence.map fun (ops, as) => (ops.filter fun o => (dotVariantOf o).isNone, as)

/-- The grammar's operator levels (regenerated from pkg/parsing/mlr.bnf on every run), from loosest to
tightest, are the documented ones, level by level, with the documented associativity. -/
theorem grammar_precedence_is_documented :
    bnfDocumentedPart.length = documentedPrecedence.length ∧
    (bnfDocumentedPart.zip documentedPrecedence).all (fun (g, d) => sameOps g.1 d.1 && g.2 == d.2) = true := by
  decide

/-- Every dot variant sits on the level of the operator it varies. -/
theorem dot_variants_share_the_level :
    Gen.bnfPrecedence.all (fun (ops, as) =>
      as == "prefix" || ops.all fun o => match dotVariantOf o with | some base => ops.contains base | none => true) = true := by
  decide

/-! ### the frame stack: block scoping, nearest-enclosing update, type enforcement -/

theorem find_append_new (f : Frame) (x : String) (b : Binding) (h : Frame.find f x = none) (hb : b.name = x) :
    Frame.find (f ++ [b]) x = some b := by
  unfold Frame.find at *
  rw [List.find?_append, h]
  simp [List.find?, hb]

/-- `var x = v` in a block: the new binding is what the block sees (it SHADOWS any outer `x`), and
every enclosing frame is untouched. -/
theorem inner_declaration_shadows (f : Frame) (rest : Stack) (x : String) (ty : Ty) (v : DV)
    (hfresh : Frame.find f x = none) (hty : ty.admits v = true) :
    ∃ st', Stack.define (f :: rest) x ty v = .ok st' ∧
      Stack.lookup st' x = some { name := x, ty := ty, val := v } ∧ st'.tail = rest := by
  refine ⟨(f ++ [{ name := x, ty := ty, val := v }]) :: rest, ?_, ?_, rfl⟩
  · simp [Stack.define, hfresh, hty]; rfl
  · have := find_append_new f x { name := x, ty := ty, val := v } hfresh rfl
    simp [Stack.lookup, this]

/-- Leaving the block (dropping its frame) after such a declaration gives back exactly the stack
there was: an inner `var` can never change or hide an outer variable once the block has ended. -/
theorem block_exit_restores_outer (f : Frame) (rest : Stack) (x : String) (ty : Ty) (v : DV) (st' : Stack)
    (h : Stack.define ([] :: f :: rest) x ty v = .ok st') : st'.drop 1 = f :: rest := by
  unfold Stack.define at h
  simp only [Frame.find, List.find?_nil, Option.isSome_none, Bool.false_eq_true, if_false] at h
  split at h
  · cases h
  · cases h; rfl

/-- Redeclaration in the same scope is an error. -/
theorem redeclaration_in_same_scope_fails (f : Frame) (rest : Stack) (x : String) (ty : Ty) (v : DV) (b : Binding)
    (h : Frame.find f x = some b) : Stack.define (f :: rest) x ty v = .error .raise := by
  simp [Stack.define, h]; rfl

/-- A declaration whose value the type does not admit is an error: `int x = "abc"`. -/
theorem declaration_enforces_type (f : Frame) (rest : Stack) (x : String) (ty : Ty) (v : DV)
    (hfresh : Frame.find f x = none) (hty : ty.admits v = false) :
    Stack.define (f :: rest) x ty v = .error .raise := by
  simp [Stack.define, hfresh, hty]; rfl

theorem find_update_same (f : Frame) (x : String) (v : DV) (b : Binding) (h : Frame.find f x = some b) :
    Frame.find (Frame.update f x v) x = some { b with val := v } := by
  unfold Frame.find at *
  induction f with
  | nil => simp at h
  | cons c cs ih =>
    unfold Frame.update
    simp only [List.find?_cons] at h
    cases hc : (c.name == x) with
    | true =>
      rw [hc] at h
      have hcb : c = b := by injection h
      subst hcb
      simp [hc]
    | false =>
      rw [hc] at h
      simp only [Bool.false_eq_true, if_false, List.find?_cons, hc]
      exact ih h

/-- Undeclared assignment `x = v` with `x` bound in the INNERMOST frame: that binding is updated,
under its declared type. -/
theorem assignment_updates_innermost (f : Frame) (rest : Stack) (x : String) (v : DV) (b : Binding)
    (h : Frame.find f x = some b) (hty : b.ty.admits v = true) :
    ∃ st', Stack.assign (f :: rest) x v = .ok st' ∧ Stack.lookup st' x = some { b with val := v } ∧ st'.tail = rest := by
  cases rest with
  | nil =>
    refine ⟨[Frame.update f x v], ?_, ?_, rfl⟩
    · simp [Stack.assign, h, hty]; rfl
    · simp [Stack.lookup, find_update_same f x v b h]
  | cons g r =>
    refine ⟨Frame.update f x v :: g :: r, ?_, ?_, rfl⟩
    · simp [Stack.assign, h, hty]; rfl
    · simp [Stack.lookup, find_update_same f x v b h]

/-- ... with `x` bound only in an ENCLOSING frame: the inner frame is left alone and the assignment
goes outward (the nearest enclosing binding is the one updated, by induction on the frames). -/
theorem assignment_goes_to_enclosing_binding (f g : Frame) (r : Stack) (x : String) (v : DV)
    (hin : Frame.find f x = none) (hout : (Stack.lookup (g :: r) x).isSome = true) :
    Stack.assign (f :: g :: r) x v = (Stack.assign (g :: r) x v).map (f :: ·) := by
  simp only [Stack.assign, hin, hout, if_true]
  cases Stack.assign (g :: r) x v <;> rfl

/-- ... and the declared type of that binding is enforced at EVERY assignment, wherever it is made. -/
theorem assignment_enforces_declared_type (f : Frame) (rest : Stack) (x : String) (v : DV) (b : Binding)
    (h : Frame.find f x = some b) (hty : b.ty.admits v = false) :
    Stack.assign (f :: rest) x v = .error .raise := by
  cases rest <;> simp [Stack.assign, h, hty] <;> rfl

/-- ... with no binding anywhere: `x` is created, untyped, in the innermost frame. -/
theorem assignment_creates_in_innermost (f : Frame) (rest : Stack) (x : String) (v : DV)
    (hin : Frame.find f x = none) (hout : Stack.lookup rest x = none) :
    Stack.assign (f :: rest) x v = .ok ((f ++ [{ name := x, ty := .any, val := v }]) :: rest) := by
  cases rest with
  | nil => simp [Stack.assign, hin]; rfl
  | cons g r => simp [Stack.assign, hin, hout]; rfl

/-- What each declared type admits (the gate is the same at declaration, assignment, parameter
binding and return): a summary over one value of each kind. -/
theorem type_gate_table :
    (Ty.int.admits (vint 1) && !Ty.int.admits (.s (.float 0)) && !Ty.int.admits (vstr [97]) &&
     Ty.num.admits (vint 1) && Ty.num.admits (.s (.float 0)) && !Ty.num.admits (.s .void) &&
     Ty.str.admits (vstr [97]) && Ty.str.admits (.s .void) && !Ty.str.admits (vint 1) &&
     Ty.bool.admits (vbool true) && !Ty.bool.admits (vstr [97]) &&
     Ty.map.admits (.map []) && !Ty.map.admits (.arr []) && Ty.arr.admits (.arr []) && !Ty.arr.admits (.map []) &&
     Ty.funct.admits (.fn "f") && !Ty.funct.admits (vint 1) &&
     Ty.var.admits (vint 1) && Ty.var.admits (.map []) && !Ty.var.admits absent && !Ty.var.admits error &&
     Ty.any.admits absent && Ty.any.admits error) = true := by
  decide

/-! ### records: reassigned fields keep their position, new fields are appended -/

theorem mput_existing_keeps_position (m : Fields) (k : Bytes) (v : DV) (h : k ∈ m.map (·.1)) :
    (mput m k v).map (·.1) = m.map (·.1) := by
  induction m with
  | nil => simp at h
  | cons p ps ih =>
    obtain ⟨k', v'⟩ := p
    unfold mput
    by_cases hk : (k' == k) = true
    · simp only [hk, if_true, List.map_cons]
      have : k' = k := by simpa using hk
      rw [this]
    · simp only [hk, Bool.false_eq_true, if_false, List.map_cons]
      have hne : k' ≠ k := by simpa using hk
      have : k ∈ ps.map (·.1) := by
        simp only [List.map_cons, List.mem_cons] at h
        rcases h with h | h
        · exact absurd h.symm hne
        · exact h
      rw [ih this]

theorem mput_new_appends (m : Fields) (k : Bytes) (v : DV) (h : k ∉ m.map (·.1)) :
    mput m k v = m ++ [(k, v)] := by
  induction m with
  | nil => rfl
  | cons p ps ih =>
    obtain ⟨k', v'⟩ := p
    unfold mput
    have hne : k' ≠ k := by
      intro e; apply h; simp [e]
    have hk : (k' == k) = false := by simpa using hne
    simp only [hk, Bool.false_eq_true, if_false, List.cons_append]
    rw [ih (by intro hm; apply h; simp [hm])]

theorem mget_mput_same (m : Fields) (k : Bytes) (v : DV) : mget (mput m k v) k = some v := by
  induction m with
  | nil => simp [mput, mget]
  | cons p ps ih =>
    obtain ⟨k', v'⟩ := p
    unfold mput
    by_cases hk : (k' == k) = true
    · simp [hk, mget]
    · simp only [hk, Bool.false_eq_true, if_false]
      unfold mget at ih ⊢
      simp only [List.find?_cons, hk]
      exact ih

/-! ### 1-up indexing, negative aliases, auto-extend -/

/-- Positions 1..n are themselves; -n..-1 alias n+1+i; everything else (0 included) is out of bounds. -/
theorem index_aliasing (n : Nat) (i : Int) :
    (1 ≤ i ∧ i ≤ n → unalias n i = some (i.toNat - 1)) ∧
    (-(n : Int) ≤ i ∧ i ≤ -1 → unalias n i = unalias n (i + n + 1)) ∧
    (i = 0 ∨ i > n ∨ i < -(n : Int) → unalias n i = none) := by
  refine ⟨?_, ?_, ?_⟩
  · intro h; simp [unalias, h]
  · intro h
    have h1 : ¬ (1 ≤ i ∧ i ≤ n) := by omega
    have h2 : 1 ≤ i + n + 1 ∧ i + n + 1 ≤ n := by omega
    simp only [unalias, h1, if_false, h, and_self, if_true, h2]
    congr 1
    omega
  · intro h
    have h1 : ¬ (1 ≤ i ∧ i ≤ n) := by omega
    have h2 : ¬ (-(n : Int) ≤ i ∧ i ≤ -1) := by omega
    simp [unalias, h1, h2]

/-- Assigning one past the end extends the array by exactly that element; assigning further out fills
the gap with JSON null (the documented null-gaps); the elements already there are unchanged. -/
theorem array_auto_extend (xs : List DV) (k : Nat) (v : DV) :
    putPath (.arr xs) [vint (xs.length + 1 + k)] v = .ok (.arr (xs ++ List.replicate k (.s .null) ++ [v])) := by
  have h0 : ¬ ((xs.length : Int) + 1 + k == 0) = true := by
    simp only [beq_iff_eq]; omega
  have h1 : unalias xs.length ((xs.length : Int) + 1 + k) = none := by
    have a : ¬ (1 ≤ (xs.length : Int) + 1 + k ∧ (xs.length : Int) + 1 + k ≤ xs.length) := by omega
    have b : ¬ (-(xs.length : Int) ≤ (xs.length : Int) + 1 + k ∧ (xs.length : Int) + 1 + k ≤ -1) := by omega
    simp [unalias, a, b]
  have h2 : ¬ ((xs.length : Int) + 1 + k < 0) := by omega
  have h3 : ((xs.length : Int) + 1 + k).toNat - xs.length - 1 = k := by omega
  simp [putPath, vint, h0, h1, h2, h3]; rfl

/-- Zero is never an index one can assign to. -/
theorem zero_index_assignment_fails (xs : List DV) (rest : List DV) (v : DV) :
    putPath (.arr xs) (vint 0 :: rest) v = .error .raiseDirty := by
  unfold putPath
  simp [vint]
  rfl

/-- Auto-create: assigning through levels that do not exist creates MAPS, even for integer keys. -/
theorem auto_create_makes_maps (i j : Int) (v : DV) :
    putPath (.map []) [vint i, vint j] v = .ok (.map [(intText i, .map [(intText j, v)])]) := by
  simp [putPath, vint, strictKey, keyText, mget, mput]; rfl

/-- Read-after-write on a map level. -/
theorem map_read_after_write (kvs : Fields) (k : Bytes) (v : DV) (hk : k ≠ []) :
    (putPath (.map kvs) [vstr k] v).bind (fun m => indexRead m (vstr k)) = .ok v := by
  have hv : vstr k = .s (.str k) := by
    unfold vstr
    cases k with
    | nil => exact absurd rfl hk
    | cons a as => rfl
  rw [hv]
  have h1 : putPath (.map kvs) [.s (.str k)] v = .ok (.map (mput kvs k v)) := by
    simp [putPath, keyText]; rfl
  rw [h1]
  show indexRead (DV.map (mput kvs k v)) (.s (.str k)) = .ok v
  simp only [indexRead, keyOf]
  show (Except.ok ((mget (mput kvs k v) k).getD absent) : Res DV) = .ok v
  rw [mget_mput_same]; rfl

/-! ### the documented truth tables of && and || -/

def lcOf : Nat → LC
  | 0 => .t | 1 => .f | 2 => .other | 3 => .void | 4 => .absent | _ => .error

def repOf : LC → DV
  | .t => vbool true | .f => vbool false | .other => vint 3 | .void => .s .void | .absent => absent | .error => error

def showCell : DV → String
  | .s (.bool true) => "true" | .s (.bool false) => "false" | .s .absent => "(absent)" | .s .error => "(error)" | _ => "?"

/-- `a && b` as the interpreter computes it on values (short circuit included). -/
def andOf (a b : LC) : DV :=
  match a with | .f => vbool false | .error => error | ca => logicalRest ca b
def orOf (a b : LC) : DV :=
  match a with | .t => vbool true | .error => error | ca => logicalRest ca b

/-- The table `mlr help type-arithmetic-info-extended` prints for `&&` (rows: left operand true, false,
3, empty, absent, error; columns likewise), as reproduced in reference-main-null-data.md. -/
def documentedAnd : List (List String) := [
  ["true", "false", "(error)", "(error)", "(absent)", "(error)"],
  ["false", "false", "false", "false", "false", "false"],
  ["(error)", "(error)", "(error)", "(error)", "(absent)", "(error)"],
  ["true", "false", "(error)", "(error)", "(absent)", "(error)"],
  ["true", "false", "(error)", "(absent)", "(absent)", "(error)"],
  ["(error)", "(error)", "(error)", "(error)", "(error)", "(error)"]]

def documentedOr : List (List String) := [
  ["true", "true", "true", "true", "true", "true"],
  ["true", "false", "(error)", "(error)", "(absent)", "(error)"],
  ["(error)", "(error)", "(error)", "(error)", "(absent)", "(error)"],
  ["true", "false", "(error)", "(error)", "(absent)", "(error)"],
  ["true", "false", "(error)", "(absent)", "(absent)", "(error)"],
  ["(error)", "(error)", "(error)", "(error)", "(error)", "(error)"]]

theorem logical_and_is_the_documented_table :
    (List.range 6).map (fun i => (List.range 6).map fun j => showCell (andOf (lcOf i) (lcOf j))) = documentedAnd := by
  decide

theorem logical_or_is_the_documented_table :
    (List.range 6).map (fun i => (List.range 6).map fun j => showCell (orOf (lcOf i) (lcOf j))) = documentedOr := by
  decide

/-! ### emit by names is the grouping it stands for -/

/-- `emit @v, "a"` on a one-level map of terminals: one record per key, the key under the given name,
the value under the variable's name, in the map's (first-appearance) order — what the grouping verb
prints for the same groups. -/
theorem emit_by_one_name (a name : Bytes) (m : Fields) (hne : a ≠ name) (hterm : ∀ p ∈ m, p.2.isMap = false) :
    emitIndexed [a] [] name m = m.map fun p => [(a, keyVal p.1), (name, p.2)] := by
  unfold emitIndexed
  apply List.map_congr_left
  intro p hp
  obtain ⟨k, v⟩ := p
  have hv := hterm (k, v) hp
  have hb : (a == name) = false := by simpa using hne
  cases v with
  | map kvs => simp [DV.isMap] at hv
  | s x => simp [mput, hb]
  | arr xs => simp [mput, hb]
  | fn f => simp [mput, hb]

theorem flatMap_congr_on {α β} (l : List α) (f g : α → List β) (h : ∀ a ∈ l, f a = g a) :
    l.flatMap f = l.flatMap g := by
  induction l with
  | nil => rfl
  | cons a as ih =>
    simp only [List.flatMap_cons]
    rw [h a (by simp), ih (fun b hb => h b (by simp [hb]))]

/-- `emit @v, "a", "b"` on a two-level map whose second level holds terminals: one record per
(first key, second key) pair in nested first-appearance order, `a` and `b` first, then the value. -/
theorem emit_by_two_names (a b name : Bytes) (m : List (Bytes × Fields))
    (hab : a ≠ b) (han : a ≠ name) (hbn : b ≠ name)
    (hterm : ∀ p ∈ m, ∀ q ∈ p.2, q.2.isMap = false) :
    emitIndexed [a, b] [] name (m.map fun p => (p.1, .map p.2))
      = m.flatMap fun p => p.2.map fun q => [(a, keyVal p.1), (b, keyVal q.1), (name, q.2)] := by
  show List.flatMap _ (List.map (fun p => (p.1, DV.map p.2)) m) = _
  rw [List.flatMap_map]
  apply flatMap_congr_on
  intro p hp
  obtain ⟨k, sub⟩ := p
  have hs := hterm (k, sub) hp
  simp only [emitPIndexed]
  apply List.map_congr_left
  intro q hq
  obtain ⟨k2, v⟩ := q
  have hab' : (a == b) = false := by simpa using hab
  have han' : (a == name) = false := by simpa using han
  have hbn' : (b == name) = false := by simpa using hbn
  simp [mput, hab', han', hbn']

/-! ### the whole interpreter: frames are balanced over every construct

One induction on the fuel over all 25 mutually recursive functions of the interpreter
(`Lemmas/C14Interp.lean`, `allPres`).  `runM m s` is the pair (outcome, final state) of running `m`
from state `s`; the outcome may be a value, a break/continue/return signal, or ANY error. -/

/-- Whatever a statement does and however it ends, the stack has as many frames afterwards as
before: nothing a block, loop or call pushed survives it. For every program, statement, state and fuel. -/
theorem frames_balanced_over_every_statement (p : Prog) (fuel : Nat) (st : Stmt) (s : St) :
    (runM (exec p fuel st) s).2.stack.length = s.stack.length :=
  (allPres p fuel).exec st s

/-- ... in particular over a braced block: the frame holding the block's own declarations is gone when
the block ends, on every exit (fall-through, break, continue, return, error). -/
theorem block_locals_do_not_outlive_the_block (p : Prog) (fuel : Nat) (body : List Stmt) (s : St) :
    (runM (execBlock p fuel body) s).2.stack.length = s.stack.length :=
  (allPres p fuel).execBlock body s

/-- ... and over expression evaluation, user-function calls and higher-order functions included. -/
theorem frames_balanced_over_every_expression (p : Prog) (fuel : Nat) (e : Expr) (s : St) :
    (runM (eval p fuel e) s).2.stack.length = s.stack.length :=
  (allPres p fuel).eval e s

/-- BY VALUE, FENCED: whatever the body of a named function or subroutine does - assign its
parameters, declare locals, recurse, fail - the caller's frames come back exactly as they were: same
variables, same types, same values. (`inCall false` is how `callFn` and `call` run a named body.) -/
theorem named_call_leaves_the_callers_locals_alone (frame : Frame) (body : M Sig) (s : St) :
    (runM (inCall false frame body) s).2.stack = s.stack :=
  inCall_named_restores frame body s

/-! ### the whole interpreter: declared types hold at every point of every run

`wtB st`: every binding of every frame of `st` holds a value its declared type admits, or nothing
(after `unset`).  The second induction over the interpreter (`Lemmas/C14Typed.lean`, `allKeeps`). -/

/-- What `wtB` says, binding by binding. -/
theorem well_typed_means (st : Stack) :
    wtB st = true ↔ ∀ f ∈ st, ∀ b ∈ f, (b.ty.admits b.val = true ∨ b.val.isAbsent = true) := by
  simp only [wtB, Frame.wt, Binding.wt, List.all_eq_true, Bool.or_eq_true]

/-- TYPE DECLARATIONS ARE ENFORCED AT EVERY ASSIGNMENT: from a well-typed stack, whatever a statement
does - declarations, assignments at any nesting, loop bindings, calls with typed parameters,
recursion, higher-order functions, errors caught at a call - and however it ends, every variable that
exists afterwards still holds a value of its declared type. No execution path of the interpreter
stores a value past a type gate. -/
theorem declared_types_hold_after_every_statement (p : Prog) (fuel : Nat) (st : Stmt) (s : St)
    (h : wtB s.stack = true) : wtB (runM (exec p fuel st) s).2.stack = true :=
  (allKeeps p fuel).exec st s h

/-- ... and after every expression (user functions run statements). -/
theorem declared_types_hold_after_every_expression (p : Prog) (fuel : Nat) (e : Expr) (s : St)
    (h : wtB s.stack = true) : wtB (runM (eval p fuel e) s).2.stack = true :=
  (allKeeps p fuel).eval e s h

/-- The stack every top-level block starts from is well-typed (it is empty), so the invariant holds
throughout every run. -/
theorem initial_stack_is_well_typed : wtB [[]] = true ∧ wtB [] = true := ⟨rfl, rfl⟩

/-! ### the whole interpreter: output is append-only (third induction, `Lemmas/C14Output.lean`) -/

/-- PRINTED AND EMITTED TEXT STAYS WHERE IT WAS PRODUCED: over every statement, on every outcome, the
output before it is a prefix of the output after it - nothing already printed or emitted is changed,
dropped or reordered by what runs later (loops, calls, errors caught at a call included). -/
theorem output_is_append_only_over_every_statement (p : Prog) (fuel : Nat) (st : Stmt) (s : St) :
    s.out <+: (runM (exec p fuel st) s).2.out :=
  (allAppends p fuel).exec st s

theorem output_is_append_only_over_every_expression (p : Prog) (fuel : Nat) (e : Expr) (s : St) :
    s.out <+: (runM (eval p fuel e) s).2.out :=
  (allAppends p fuel).eval e s

/-- ARGUMENTS ARE PASSED BY VALUE AND CALLS ARE FENCED, for the interpreter's own call function: a call
of a named user function (the parser marks none of them as a literal) - whatever its body assigns,
declares, unsets or calls, however deep it recurses and however it ends - leaves every frame of the
caller exactly as it was: same variables, same declared types, same values. -/
theorem a_named_function_call_cannot_touch_the_callers_locals (p : Prog) (fuel : Nat) (name : String)
    (args : List DV) (s : St) (hname : name.startsWith "#" = false) (hfs : ∀ d ∈ p.funcs, d.isLit = false) :
    (runM (callFn p fuel name args) s).2.stack = s.stack :=
  callFn_named_restores p fuel name args s hname hfs

/-- POSITIONAL ACCESS on any map, as `$[[n]]` / `$[[[n]]]` on the record: `m[[n]]` is the NAME at position n
(a string, whatever it looks like) and `m[[[n]]]` the VALUE there, 1-up. -/
theorem positional_name_and_value (kvs : List (Bytes × DV)) (n : Nat) (h : n < kvs.length) :
    positionalRead (.map kvs) (.arr [vint (n + 1)]) = some (pure (vstr kvs[n].1)) ∧
    positionalRead (.map kvs) (.arr [.arr [vint (n + 1)]]) = some (pure kvs[n].2) := by
  have h1 : (1 : Int) ≤ (n : Int) + 1 ∧ (n : Int) + 1 ≤ (kvs.length : Int) := by omega
  simp [positionalRead, vint, unalias, h1, h]

/-- ... and a position that is zero or beyond either end reads as absent, not as an error. -/
theorem positional_out_of_bounds_is_absent (kvs : List (Bytes × DV)) (i : Int)
    (h : i = 0 ∨ (kvs.length : Int) < i ∨ i < -(kvs.length : Int)) :
    positionalRead (.map kvs) (.arr [vint i]) = some (pure absent) ∧
    positionalRead (.map kvs) (.arr [.arr [vint i]]) = some (pure absent) := by
  have h1 : ¬ ((1 : Int) ≤ i ∧ i ≤ (kvs.length : Int)) := by omega
  have h2 : ¬ (-(kvs.length : Int) ≤ i ∧ i ≤ -1) := by omega
  simp [positionalRead, vint, unalias, h1, h2]

/-- An in-bounds array slot holding the wrong kind of value for the next index is OVERWRITTEN by the
auto-create: a string index makes it a map. -/
theorem array_slot_overwritten_for_string_index (x : Val) (k : Bytes) (v : DV) :
    putPath (.arr [.s x]) [vint 1, .s (.str k)] v = .ok (.arr [.map [(k, v)]]) := by
  simp [putPath, vint, unalias, listSet, keyText, mput]
  rfl

/-- A path of keys only walks through maps: a non-map met while keys remain is an error, the empty path absent. -/
theorem path_index_walks_maps_only (kvs : Fields) (k : Bytes) (x : Val) (j : DV) (h : mget kvs k = some (.s x)) :
    indexPathMap (.map kvs) [.s (.str k), j] = pure error ∧ indexPathMap (.map kvs) [] = pure absent := by
  constructor
  · simp [indexPathMap, keyOf, h]
  · simp [indexPathMap]

/-- NR, FNR, FILENAME, THE MODE AND "IS THERE A CURRENT RECORD" ARE READ-ONLY FOR PROGRAMS: over every
statement and every expression, on every outcome, they are afterwards what they were before (fourth
induction over the whole interpreter). -/
theorem context_is_read_only_over_every_statement (p : Prog) (fuel : Nat) (st : Stmt) (s : St) :
    ctxOf (runM (exec p fuel st) s).2 = ctxOf s :=
  (allKeepCtx p fuel).exec st s

theorem context_is_read_only_over_every_expression (p : Prog) (fuel : Nat) (e : Expr) (s : St) :
    ctxOf (runM (eval p fuel e) s).2 = ctxOf s :=
  (allKeepCtx p fuel).eval e s

/-- NR AND FNR COUNT RECORDS: whatever the program does with a record, and however that ends, the counters
afterwards are exactly one more than before and FILENAME is unchanged. -/
theorem nr_and_fnr_advance_by_one_per_record (p : Prog) (cfg : Run) (fuel : Nat) (r : Fields) (s : St) :
    (runM (runRecord p cfg fuel r) s).2.nr = s.nr + 1 ∧ (runM (runRecord p cfg fuel r) s).2.fnr = s.fnr + 1 ∧
    (runM (runRecord p cfg fuel r) s).2.filename = s.filename :=
  runRecord_counts p cfg fuel r s

/-- ... so after a stream that was processed without error NR is the number of records: what the end
blocks see. (runAll starts the loop at NR = 0.) -/
theorem nr_after_the_stream_is_the_record_count (p : Prog) (cfg : Run) (fuel : Nat) (recs : List Fields) (s : St)
    (h : (runM (recLoop p cfg fuel recs) { s with nr := 0, fnr := 0 }).1 = .ok ()) :
    (runM (recLoop p cfg fuel recs) { s with nr := 0, fnr := 0 }).2.nr = recs.length := by
  have := recLoop_counts p cfg fuel recs { s with nr := 0, fnr := 0 } h
  simpa using this

/-- `filter X` AND `filter -x X` PARTITION THE INPUT: run on the same record from the same state, the two do
exactly the same work (same final state up to the output, same printed lines before the record) and,
when the run succeeds, the record is written by exactly one of them. (Also for `put` with and without an
inverted `filter` statement; `-q` writes no record at all.) -/
theorem filter_and_filter_x_partition (p : Prog) (cfg : Run) (fuel : Nat) (r : Fields) (s : St)
    (hq : cfg.quiet = false)
    (hok : (runM (runRecord p { cfg with invert := false } fuel r) s).1 = .ok ()) :
    (runM (runRecord p { cfg with invert := true } fuel r) s).1 = .ok () ∧
    ∃ base : St,
      ((runM (runRecord p { cfg with invert := false } fuel r) s).2 = { base with out := base.out ++ [.record base.cur] } ∧
       (runM (runRecord p { cfg with invert := true } fuel r) s).2 = base) ∨
      ((runM (runRecord p { cfg with invert := false } fuel r) s).2 = base ∧
       (runM (runRecord p { cfg with invert := true } fuel r) s).2 = { base with out := base.out ++ [.record base.cur] }) := by
  unfold runRecord at *
  simp only [runM_bind, runM_modify, runM_get, hq, emitRec] at *
  generalize runM (runBlock p fuel p.main) _ = rb at *
  obtain ⟨res, s1⟩ := rb
  cases res with
  | error e => simp at hok
  | ok u =>
    refine ⟨?_, s1, ?_⟩ <;>
    · cases hf : s1.filt with
      | s v =>
        cases v <;> simp_all [runM_bind, runM_pure, runM_modify, runM_failM] <;>
          (first | done | (rename_i b; cases b <;> simp_all [runM_modify, runM_pure]) | (cases hc : cfg.isFilter <;> simp_all [runM_bind, runM_pure, runM_modify, runM_failM]))
      | _ => cases hc : cfg.isFilter <;> simp_all [runM_bind, runM_pure, runM_modify, runM_failM]

/-- Non-vacuity: the premises above are met by ordinary states. -/
example : ∃ st', Stack.define ([] :: [[{ name := "x", ty := .int, val := vint 1 }]]) "x" .str (vstr [97]) = .ok st' ∧
    Stack.lookup st' "x" = some { name := "x", ty := .str, val := vstr [97] } :=
  ⟨_, rfl, rfl⟩
example : emitIndexed [[97]] [] [115] [([112], vint 1), ([113], vint 2)]
    = [[([97], vstr [112]), ([115], vint 1)], [([97], vstr [113]), ([115], vint 2)]] := rfl

/-- Non-vacuity of `filter_and_filter_x_partition`: the one-statement filter program `true` succeeds on a record. -/
example : (runM (runRecord { main := [.bare (.lit (.bool true))] } { isFilter := true } 5 [([97], vint 1)]) { isFilter := true }).1 = .ok () := by
  rfl

end Props.C14
end Miller
