/-
C11 — Record-selecting verbs only select: nothing altered or invented, counts add up.

Each verb is modelled as the state machine its `Transform` method implements
(Model/Verbs/Select.lean, tied to the real transformers by the in-process `verbs`
correspondence); the theorems say that for EVERY input list the machine computes the stateless
list specification of Spec/Select.lean.
-/
import MillerModel.Lemmas.C11
namespace Miller
namespace Props.C11
open Verbs Spec.Select Lemmas.C11

/-- head -n k is the first k records. -/
theorem head_take (n : Nat) (xs : List Rec) : (headUnkeyed n).run xs = xs.take n := by
  have := headUnkeyed_runFrom n 0 xs
  simpa [Machine.run, headUnkeyed] using this

/-- head -n k -g fields: a record is kept iff it has the fields and fewer than k earlier records
share its key — i.e. the first k of every group, in input order; key-less records are dropped. -/
theorem head_keyed (n : Nat) (fields : List Bytes) (xs : List Rec) :
    (headKeyed n fields).run xs = Spec.Select.head n fields xs := by
  have := counting_machine fields (fun c => decide (c < n)) (headKeyed n fields)
    (by intro m r; simp only [headKeyed]; cases groupKey fields r <;> simp [Nat.lt_iff_add_one_le])
    (by intro m; rfl) [] [] xs (by intro k; simp [OMap.get?, cnt])
  exact this

/-- tail -n +k: everything from the k-th record of each group on. -/
theorem tail_from_start (skip : Nat) (fields : List Bytes) (xs : List Rec) :
    (tailFromStart skip fields).run xs = Spec.Select.tailFrom skip fields xs := by
  have := counting_machine fields (fun c => decide (c ≥ skip)) (tailFromStart skip fields)
    (by intro m r; simp only [tailFromStart]; cases groupKey fields r <;> simp [Nat.lt_iff_add_one_le])
    (by intro m; rfl) [] [] xs (by intro k; simp [OMap.get?, cnt])
  exact this

/-- decimate -n k [-b|-e] [-g]: every k-th record of each group. -/
theorem decimate_spec (n rem : Nat) (fields : List Bytes) (xs : List Rec) :
    (Verbs.decimate n rem fields).run xs = Spec.Select.decimate n rem fields xs := by
  have := counting_machine fields (fun c => c % n == rem) (Verbs.decimate n rem fields)
    (by intro m r; simp only [Verbs.decimate]; cases groupKey fields r <;> simp)
    (by intro m; rfl) [] [] xs (by intro k; simp [OMap.get?, cnt])
  exact this

/-- |head -n k| + |tail -n +(k+1)| = number of records having the group-by fields (= N unkeyed). -/
theorem head_tail_partition (k : Nat) (fields : List Bytes) (xs : List Rec) :
    (Spec.Select.head k fields xs).length + (Spec.Select.tailFrom k fields xs).length
      = (xs.filter (fun r => (groupKey fields r).isSome)).length := by
  unfold Spec.Select.head Spec.Select.tailFrom
  rw [filterHist_partition _ _ (by
    intro pre r
    cases groupKey fields r with
    | none => simp
    | some key => simp only [decide_eq_true_eq]; omega) [] xs]
  -- the union predicate is "has the fields"
  have key : ∀ (pre : List Rec) (r : Rec),
      ((match groupKey fields r with | none => false | some key => decide (cnt fields pre key < k)) ||
       (match groupKey fields r with | none => false | some key => decide (cnt fields pre key ≥ k)))
      = (groupKey fields r).isSome := by
    intro pre r
    cases groupKey fields r with
    | none => rfl
    | some key =>
      simp only [Option.isSome_some, Bool.or_eq_true, decide_eq_true_eq]; omega
  have : ∀ pre, (filterHist (fun pre r =>
      (match groupKey fields r with | none => false | some key => decide (cnt fields pre key < k)) ||
      (match groupKey fields r with | none => false | some key => decide (cnt fields pre key ≥ k))) pre xs)
      = xs.filter (fun r => (groupKey fields r).isSome) := by
    induction xs with
    | nil => intro pre; rfl
    | cons r rest ih =>
      intro pre
      simp only [filterHist, List.filter_cons, key pre r, ih]
      by_cases h : (groupKey fields r).isSome = true <;> simp [h]
  exact congrArg List.length (this [])

/-- tac reverses; tac twice is the identity. -/
theorem tac_reverse (xs : List Rec) : tac.run xs = xs.reverse := by
  have := tac_runFrom [] xs; simpa [Machine.run, tac] using this
theorem tac_tac (xs : List Rec) : tac.run (tac.run xs) = xs := by
  rw [tac_reverse, tac_reverse, List.reverse_reverse]

/-- group-by: groups in first-appearance order, input order within each group, records lacking
a group-by field dropped. -/
theorem group_by_spec (fields : List Bytes) (xs : List Rec) :
    (Verbs.groupBy fields).run xs = Spec.Select.groupBy fields xs := groupBy_eq fields xs

/-- group-like: the same with the list of field names as the key. -/
theorem group_like_spec (xs : List Rec) :
    Verbs.groupLike.run xs =
      (dkeys (fun r => some (joinKey r.keys)) xs).flatMap
        (grp (fun r => some (joinKey r.keys)) xs) := groupLike_eq xs

/-- Selectors only select: every record output by head / tail -n +k / decimate (any count, any
group-by list) is an input record, unchanged and in input order (a sublist). -/
theorem selectors_sublist (n rem : Nat) (fields : List Bytes) (xs : List Rec) :
    List.Sublist ((headKeyed n fields).run xs) xs ∧
    List.Sublist ((tailFromStart n fields).run xs) xs ∧
    List.Sublist ((Verbs.decimate n rem fields).run xs) xs ∧
    List.Sublist ((headUnkeyed n).run xs) xs := by
  refine ⟨?_, ?_, ?_, ?_⟩
  · rw [head_keyed]; exact filterHist_sublist _ _ _
  · rw [tail_from_start]; exact filterHist_sublist _ _ _
  · rw [decimate_spec]; exact filterHist_sublist _ _ _
  · rw [head_take]; exact List.take_sublist n xs

/-- group-by outputs only input records. -/
theorem group_by_members (fields : List Bytes) (xs : List Rec) :
    ∀ r ∈ (Verbs.groupBy fields).run xs, r ∈ xs := by
  intro r hr
  rw [group_by_spec] at hr
  unfold Spec.Select.groupBy at hr
  obtain ⟨k, _, hk⟩ := List.mem_flatMap.mp hr
  exact (List.mem_filter.mp hk).1

/-- nothing outputs nothing. -/
theorem nothing_spec (xs : List Rec) : Verbs.nothing.run xs = [] := by
  induction xs with
  | nil => rfl
  | cons r rest ih => simpa [Machine.run, Machine.runFrom, Verbs.nothing] using ih

/-! Non-vacuity -/
example : (headKeyed 1 [str "a"]).run [[(str "a", str "x")], [(str "b", str "y")], [(str "a", str "x"), (str "c", str "1")], [(str "a", str "z")]]
    = [[(str "a", str "x")], [(str "a", str "z")]] := by decide

/-- Groups are formed by the EXACT texts of the group-by fields: the grouping key (escaped
comma-join, `GetSelectedValuesJoined`) of two value lists of the same length is the same only if
the lists are equal — whatever bytes, commas and backslashes included, the values contain.
(Before the fix 94fce798a the plain comma-join mapped ["x,y","z"] and ["x","y,z"] to one key.) -/
theorem grouping_key_injective (a b : List Bytes) (hl : a.length = b.length) (h : joinKey a = joinKey b) : a = b :=
  joinKey_injective a b hl h

/-- Hence two records fall in the same group exactly when they agree on every group-by field. -/
theorem same_group_iff_same_values (fields : List Bytes) (r s : Rec) (k : Bytes)
    (hr : groupKey fields r = some k) (hs : groupKey fields s = some k) :
    fields.mapM (get r) = fields.mapM (get s) := by
  unfold groupKey at hr hs
  by_cases he : fields.isEmpty = true
  · have : fields = [] := by simpa using he
    subst this; rfl
  · simp only [he, Bool.false_eq_true, if_false] at hr hs
    cases hvr : fields.mapM (get r) with
    | none => simp [hvr] at hr
    | some a =>
      cases hvs : fields.mapM (get s) with
      | none => simp [hvs] at hs
      | some b =>
        simp only [hvr, hvs, Option.map_some, Option.some.injEq] at hr hs
        have hla : a.length = fields.length := mapM_length _ _ _ hvr
        have hlb : b.length = fields.length := mapM_length _ _ _ hvs
        rw [joinKey_injective a b (by omega) (by rw [hr, hs])]

end Props.C11
end Miller
