/-
C13 — join pairs exactly the matching records and accounts for every record once.

The model (`Model/Verbs/Join.lean`) is the half-streaming algorithm of pkg/transformers/join.go:
an insertion-ordered map of left buckets built from the left file, a `WasPaired` mark per bucket,
one step per right record, unpaired left buckets at end of stream.  It is tied to the real
transformer by the `join` correspondence (left file written and read by the real JSON
writer/reader).  The theorems say what that algorithm computes for EVERY left file and right
stream, in terms that mention no bucket, map or mark.
-/
import MillerModel.Lemmas.C13
namespace Miller
namespace Props.C13
open Verbs Lemmas.C13 Lemmas.C11

/-- Join key of a left / right record (none: a join field is missing, or empty under --ignore-empty). -/
abbrev lkey (o : JoinOpts) : Rec → Option Bytes := jkey o.lf o.ignoreEmpty
abbrev rkey (o : JoinOpts) : Rec → Option Bytes := jkey o.rf o.ignoreEmpty
/-- The left records as the join sees them (after --lk). -/
abbrev L (o : JoinOpts) (lefts : List Rec) : List Rec := lefts.map (keepLeft o)

/-- The left records matching a right record, in left-file order. -/
def matchesOf (o : JoinOpts) (lefts : List Rec) (r : Rec) : List Rec :=
  match rkey o r with
  | none => []
  | some k => (L o lefts).filter fun l => lkey o l == some k

/-- What a right record contributes, stated without buckets. -/
def contribution (o : JoinOpts) (lefts : List Rec) (r : Rec) : List Rec :=
  if matchesOf o lefts r = [] then (if o.ur then [unpairedRight o r] else [])
  else if o.emitPaired then (matchesOf o lefts r).map (fun l => pairRec o l r) else []

/-- Is some right record matched with left key `k`? -/
def keyPaired (o : JoinOpts) (lefts rights : List Rec) (k : Bytes) : Prop :=
  ∃ r ∈ rights, rkey o r = some k ∧ grp (lkey o) (L o lefts) k ≠ []

abbrev B (o : JoinOpts) (lefts : List Rec) : OMap (List Rec) := bucketsOf (lkey o) (L o lefts)

/-- PAIRING: each right record is paired with exactly the left records whose join key equals its
own, in left-file order; a right record with no such left record (or no key) is passed through
under --ur and dropped otherwise; --np suppresses exactly the pairs. -/
theorem emit_is_contribution (o : JoinOpts) (lefts : List Rec) (r : Rec) :
    emitForRight o (B o lefts) r = contribution o lefts r := by
  unfold emitForRight contribution matchesOf
  cases hk : rkey o r with
  | none => simp [rkey] at hk; simp [hk]
  | some k =>
    simp only [rkey] at hk
    simp only [hk]
    rw [bucket_lookup]
    by_cases hg : grp (lkey o) (L o lefts) k = []
    · simp only [hg, if_true]
      have : (List.filter (fun l => lkey o l == some k) (L o lefts)) = [] := hg
      simp [this]
    · simp only [hg, if_false]
      have : (List.filter (fun l => lkey o l == some k) (L o lefts)) = grp (lkey o) (L o lefts) k := rfl
      simp [this, hg]

/-- Equal join keys mean equal join-field VALUES, text for text (the key encoding is injective),
provided -l and -r name the same number of fields (the verb rejects other argument lists). -/
theorem equal_keys_equal_values (o : JoinOpts) (l r : Rec) (k : Bytes) (hlen : o.lf.length = o.rf.length)
    (hl : lkey o l = some k) (hr : rkey o r = some k) : o.lf.mapM (get l) = o.rf.mapM (get r) := by
  unfold lkey jkey at hl
  unfold rkey jkey at hr
  cases ha : o.lf.mapM (get l) with
  | none => simp [ha] at hl
  | some a =>
    cases hb : o.rf.mapM (get r) with
    | none => simp [hb] at hr
    | some b =>
      simp only [ha, hb] at hl hr
      split at hl
      · simp at hl
      · split at hr
        · simp at hr
        · simp only [Option.some.injEq] at hl hr
          have h1 := mapM_length _ _ _ ha
          have h2 := mapM_length _ _ _ hb
          rw [joinKey_injective a b (by omega) (by rw [hl, hr])]

theorem flatMap_congr_on {α β} (l : List α) (f g : α → List β) (h : ∀ x ∈ l, f x = g x) : l.flatMap f = l.flatMap g := by
  induction l with
  | nil => rfl
  | cons x xs ih =>
    simp only [List.flatMap_cons]
    rw [h x (by simp), ih (fun y hy => h y (by simp [hy]))]

theorem run_stateless {σ} (m : Machine σ) (f : σ → Rec → σ) (g : Rec → List Rec)
    (hstep : ∀ s r, m.step s r = (f s r, g r)) (s : σ) (rs : List Rec) :
    m.runFrom s rs = rs.flatMap g ++ m.finish (rs.foldl f s) := by
  induction rs generalizing s with
  | nil => simp [Machine.runFrom]
  | cons r rs ih => simp [Machine.runFrom, hstep, ih]

def markStep (o : JoinOpts) (lefts : List Rec) (paired : List Bytes) (r : Rec) : List Bytes :=
  match pairedKeyOf o (B o lefts) r with | some k => k :: paired | none => paired

/-- The unpaired left records emitted under --ul, given the marked keys. -/
def leftTail (o : JoinOpts) (lefts : List Rec) (paired : List Bytes) : List Rec :=
  if o.ul then
    (((B o lefts).filter fun b => !paired.contains b.1).flatMap fun b => b.2.map (unpairedLeft o))
      ++ (((L o lefts).filter fun l => (lkey o l).isNone).map (unpairedLeft o))
  else []

/-- STRUCTURE OF THE OUTPUT: the contributions of the right records in right-stream order,
followed (under --ul) by the left records of the buckets no right record matched, in bucket
(first-appearance) order, then the key-less left records in file order. -/
theorem join_output (o : JoinOpts) (lefts rights : List Rec) :
    join o lefts rights
      = rights.flatMap (contribution o lefts) ++ leftTail o lefts (rights.foldl (markStep o lefts) []) := by
  unfold join Machine.run
  have h := run_stateless (joinMachine o lefts) (markStep o lefts) (emitForRight o (B o lefts))
    (by intro s r; rfl) [] rights
  rw [show (joinMachine o lefts).init = [] from rfl, h]
  congr 1
  · exact flatMap_congr_on _ _ _ (fun r _ => emit_is_contribution o lefts r)

theorem mem_marks (o : JoinOpts) (lefts : List Rec) (rights : List Rec) (s : List Bytes) (k : Bytes) :
    k ∈ rights.foldl (markStep o lefts) s ↔ k ∈ s ∨ ∃ r ∈ rights, pairedKeyOf o (B o lefts) r = some k := by
  induction rights generalizing s with
  | nil => simp
  | cons r rs ih =>
    simp only [List.foldl_cons, ih, List.mem_cons]
    unfold markStep
    cases hp : pairedKeyOf o (B o lefts) r with
    | none =>
      constructor
      · rintro (h | ⟨r', hr', he⟩)
        · left; exact h
        · right; exact ⟨r', Or.inr hr', he⟩
      · rintro (h | ⟨r', hr' | hr', he⟩)
        · left; exact h
        · subst hr'; rw [hp] at he; simp at he
        · right; exact ⟨r', hr', he⟩
    | some k' =>
      simp only [List.mem_cons]
      constructor
      · rintro ((h | h) | ⟨r', hr', he⟩)
        · right; exact ⟨r, Or.inl rfl, by rw [hp, h]⟩
        · left; exact h
        · right; exact ⟨r', Or.inr hr', he⟩
      · rintro (h | ⟨r', hr' | hr', he⟩)
        · left; right; exact h
        · subst hr'; rw [hp] at he; simp only [Option.some.injEq] at he; left; left; exact he.symm
        · right; exact ⟨r', hr', he⟩

theorem pairedKeyOf_some (o : JoinOpts) (lefts : List Rec) (r : Rec) (k : Bytes) :
    pairedKeyOf o (B o lefts) r = some k ↔ rkey o r = some k ∧ grp (lkey o) (L o lefts) k ≠ [] := by
  unfold pairedKeyOf
  cases hk : jkey o.rf o.ignoreEmpty r with
  | none => simp [rkey, hk]
  | some k' =>
    simp only [rkey, hk]
    rw [bucket_lookup]
    by_cases hg : grp (lkey o) (L o lefts) k' = []
    · simp only [hg, if_true, Option.isSome_none, Bool.false_eq_true, if_false]
      constructor
      · intro h; simp at h
      · rintro ⟨h1, h2⟩; simp only [Option.some.injEq] at h1; subst h1; exact absurd hg h2
    · simp only [hg, if_false, Option.isSome_some, if_true, Option.some.injEq]
      constructor
      · intro h; subst h; exact ⟨rfl, hg⟩
      · rintro ⟨h1, _⟩; exact h1

/-- NO LEFT RECORD IS LOST under --ul: every left record either has a partner in the right stream
(a right record with the same join key) or appears in the output as an unpaired record. -/
theorem every_left_accounted (o : JoinOpts) (lefts rights : List Rec) (hul : o.ul = true)
    (l : Rec) (hl : l ∈ L o lefts) :
    (∃ r ∈ rights, (lkey o l).isSome ∧ rkey o r = lkey o l) ∨ unpairedLeft o l ∈ join o lefts rights := by
  rw [join_output]
  cases hk : lkey o l with
  | none =>
    right
    apply List.mem_append_right
    unfold leftTail
    simp only [hul, if_true]
    apply List.mem_append_right
    exact List.mem_map.mpr ⟨l, List.mem_filter.mpr ⟨hl, by simp [hk]⟩, rfl⟩
  | some k =>
    have hgl : l ∈ grp (lkey o) (L o lefts) k := List.mem_filter.mpr ⟨hl, by simp [hk]⟩
    have hgne : grp (lkey o) (L o lefts) k ≠ [] := List.ne_nil_of_mem hgl
    by_cases hm : k ∈ rights.foldl (markStep o lefts) []
    · left
      rcases (mem_marks o lefts rights [] k).mp hm with h | ⟨r, hr, he⟩
      · simp at h
      · exact ⟨r, hr, by simp, ((pairedKeyOf_some o lefts r k).mp he).1⟩
    · right
      apply List.mem_append_right
      unfold leftTail
      simp only [hul, if_true]
      apply List.mem_append_left
      have hg := ginv_buckets (lkey o) (L o lefts)
      have hkin : k ∈ (B o lefts).map (·.1) := by
        apply Classical.byContradiction
        intro hnot
        exact hgne (hg.absent k hnot)
      obtain ⟨b, hb, hbk⟩ := List.mem_map.mp hkin
      apply List.mem_flatMap.mpr
      refine ⟨b, List.mem_filter.mpr ⟨hb, by simp [hbk, hm]⟩, ?_⟩
      rw [hg.vals b hb, hbk]
      exact List.mem_map.mpr ⟨l, hgl, rfl⟩

/-- NO RIGHT RECORD IS LOST under --ur (pairs not suppressed): every right record appears in the
output, unpaired if it has no partner and otherwise paired with each of its partners. -/
theorem every_right_accounted (o : JoinOpts) (lefts rights : List Rec) (hur : o.ur = true) (hp : o.emitPaired = true)
    (r : Rec) (hr : r ∈ rights) :
    (matchesOf o lefts r = [] ∧ unpairedRight o r ∈ join o lefts rights) ∨
    (matchesOf o lefts r ≠ [] ∧ ∀ l ∈ matchesOf o lefts r, pairRec o l r ∈ join o lefts rights) := by
  rw [join_output]
  by_cases hm : matchesOf o lefts r = []
  · left
    refine ⟨hm, List.mem_append_left _ (List.mem_flatMap.mpr ⟨r, hr, ?_⟩)⟩
    simp [contribution, hm, hur]
  · right
    refine ⟨hm, fun l hl => List.mem_append_left _ (List.mem_flatMap.mpr ⟨r, hr, ?_⟩)⟩
    simp only [contribution, hm, if_false, hp, if_true]
    exact List.mem_map.mpr ⟨l, hl, rfl⟩

/-- The flag --np removes exactly the paired records: the output is the same with every pair deleted
(the unpaired right records and the left tail are unchanged). -/
theorem np_removes_exactly_pairs (o : JoinOpts) (lefts rights : List Rec) :
    join { o with emitPaired := false } lefts rights
      = rights.flatMap (fun r => if matchesOf o lefts r = [] then contribution o lefts r else [])
        ++ leftTail o lefts (rights.foldl (markStep o lefts) []) := by
  rw [join_output]
  congr 1
  apply flatMap_congr_on
  intro r _
  show contribution { o with emitPaired := false } lefts r = _
  unfold contribution
  have : matchesOf { o with emitPaired := false } lefts r = matchesOf o lefts r := rfl
  have h2 : unpairedRight { o with emitPaired := false } r = unpairedRight o r := rfl
  rw [this, h2]
  by_cases hm : matchesOf o lefts r = [] <;> simp [hm]

/-- The flag --ignore-empty never pairs an empty key: a record with an empty join field has no key. -/
theorem ignore_empty_never_pairs (fields : List Bytes) (r : Rec) (vs : List Bytes)
    (hv : fields.mapM (get r) = some vs) (he : [] ∈ vs) : jkey fields true r = none := by
  unfold jkey
  simp only [hv, Bool.true_and]
  have : vs.any (·.isEmpty) = true := List.any_eq_true.mpr ⟨[], he, rfl⟩
  simp [this]

/-! Non-vacuity -/
example : join { lf := [str "id"], rf := [str "id"], oj := [str "id"], ul := true, ur := true }
    [[(str "id", str "1"), (str "a", str "x")], [(str "id", str "2"), (str "a", str "y")], [(str "a", str "z")]]
    [[(str "id", str "1"), (str "b", str "p")], [(str "id", str "3"), (str "b", str "q")], [(str "id", str "1"), (str "b", str "r")]]
    = [[(str "id", str "1"), (str "a", str "x"), (str "b", str "p")],
       [(str "id", str "3"), (str "b", str "q")],
       [(str "id", str "1"), (str "a", str "x"), (str "b", str "r")],
       [(str "id", str "2"), (str "a", str "y")],
       [(str "a", str "z")]] := by decide

end Props.C13
end Miller
