/-
C16 — Time conversion functions agree with the Gregorian calendar.

The model (`Model/Time.lean`) defines the proleptic Gregorian calendar by counting days from the
leap rule and the month lengths; sec2gmt / sec2gmtdate / gmt2sec / sec2dhms / sec2hms / dhms2sec
are written over it and tied to the real functions (Go's time package, pbnjay-strptime,
relative_time.go) by the `time` correspondence, dense around leap days, year ends, the epoch and
the range limits.  The theorems hold for EVERY instant in years 1..9999 / every integer.
-/
import MillerModel.Lemmas.C16
namespace Miller
namespace Props.C16
open Time Lemmas.C16

/-- The civil date computed for a day number is a real calendar date (month 1..12, day within the
month's length under the leap rule), and counting days back from it gives the day number: the
date printed for an instant is the ONLY date containing that instant. -/
theorem civil_date_is_valid_and_unique (n : Nat) :
    let c := civilFromDays n
    daysFromCivil c.1 c.2.1 c.2.2 = n ∧ 1 ≤ c.1 ∧ 1 ≤ c.2.1 ∧ c.2.1 ≤ 12 ∧ 1 ≤ c.2.2 ∧ c.2.2 ≤ monthLen c.1 c.2.1 :=
  civil_roundtrip n

theorem unpad2_pad2 (n : Nat) (h : n < 100) : unpad2 (pad2 n) = some n := by
  simp only [pad2, unpad2, digit]
  have : 48 ≤ 48 + n / 10 % 10 ∧ 48 + n / 10 % 10 ≤ 57 ∧ 48 ≤ 48 + n % 10 ∧ 48 + n % 10 ≤ 57 := by omega
  simp only [this, and_self, if_true, Option.some.injEq]
  omega

theorem unpad4_pad4 (n : Nat) (h : n < 10000) : unpad4 (pad4 n) = some n := by
  simp only [pad4, unpad4, digit]
  have : 48 ≤ 48 + n / 1000 % 10 ∧ 48 + n / 1000 % 10 ≤ 57 ∧ 48 ≤ 48 + n / 100 % 10 ∧ 48 + n / 100 % 10 ≤ 57 ∧
         48 ≤ 48 + n / 10 % 10 ∧ 48 + n / 10 % 10 ≤ 57 ∧ 48 ≤ 48 + n % 10 ∧ 48 + n % 10 ≤ 57 := by omega
  simp only [this, and_self, if_true, Option.some.injEq]
  omega

/-- Parsing the canonical text of given fields gives the instant those fields denote. -/
theorem gmt2sec_of_fields (y m d hh mm ss : Nat) (hy : 1 ≤ y ∧ y < 10000) (hm : 1 ≤ m ∧ m ≤ 12)
    (hd : 1 ≤ d ∧ d ≤ monthLen y m) (hh' : hh ≤ 23) (hmm : mm ≤ 59) (hss : ss ≤ 59) :
    gmt2sec (pad4 y ++ [45] ++ pad2 m ++ [45] ++ pad2 d ++ [84] ++ pad2 hh ++ [58] ++ pad2 mm ++ [58] ++ pad2 ss ++ [90])
      = some (((daysFromCivil y m d : Nat) : Int) * 86400 + hh * 3600 + mm * 60 + ss + minSec) := by
  have hml : monthLen y m ≤ 31 := by unfold monthLen; split <;> (try split) <;> omega
  have e1 := unpad4_pad4 y hy.2
  have e2 := unpad2_pad2 m (by omega)
  have e3 := unpad2_pad2 d (by omega)
  have e4 := unpad2_pad2 hh (by omega)
  have e5 := unpad2_pad2 mm (by omega)
  have e6 := unpad2_pad2 ss (by omega)
  simp only [pad4, pad2] at e1 e2 e3 e4 e5 e6
  simp only [gmt2sec, pad4, pad2, List.cons_append, List.nil_append, List.length_cons, List.length_nil,
    List.getD_cons_succ, List.getD_cons_zero, List.take, List.drop]
  simp only [e1, e2, e3, e4, e5, e6]
  have c1 : ¬ (y < 1) := by omega
  have c2 : ¬ (m < 1) := by omega
  have c3 : ¬ (m > 12) := by omega
  have c4 : ¬ (d < 1) := by omega
  have c5 : ¬ (d > monthLen y m) := by omega
  have c6 : ¬ (hh > 23) := by omega
  have c7 : ¬ (mm > 59) := by omega
  have c8 : ¬ (ss > 59) := by omega
  simp [c3, c5, c6, c7, c8]
  omega

theorem daysBeforeYear_mono (a b : Nat) (h : a ≤ b) : daysBeforeYear a ≤ daysBeforeYear b := by
  induction b with
  | zero => have : a = 0 := by omega
            subst this; exact Nat.le_refl _
  | succ k ih =>
    by_cases hk : a ≤ k
    · have := ih hk
      cases k with
      | zero => simpa [daysBeforeYear] using this
      | succ j =>
        have := daysBeforeYear_succ (j + 1) (by omega)
        omega
    · have : a = k + 1 := by omega
      subst this; exact Nat.le_refl _

/-- ROUND TRIP for every instant of years 1..9999: the text sec2gmt prints for `t` parses back,
by gmt2sec, to exactly `t` — so the printed date and time ARE the calendar date and time of `t`
(leap years, century rules, month lengths, negative times before the epoch included). -/
theorem gmt2sec_sec2gmt (t : Int) (h1 : minSec ≤ t) (h2 : t ≤ maxSec) : gmt2sec (sec2gmt t) = some t := by
  unfold sec2gmt
  simp only
  have hc := civil_roundtrip ((t - minSec).toNat / 86400)
  simp only at hc
  generalize hcv : civilFromDays ((t - minSec).toNat / 86400) = c at hc
  obtain ⟨y, m, d⟩ := c
  simp only at hc ⊢
  -- the year is at most 9999
  have hs : (t - minSec).toNat ≤ 315537897599 := by unfold minSec maxSec at *; omega
  have hyr : y < 10000 := by
    apply Classical.byContradiction
    intro hge
    have hmono := daysBeforeYear_mono 10000 y (by omega)
    have h10k : daysBeforeYear 10000 = 3652059 := by decide +kernel
    have : daysFromCivil y m d ≥ daysBeforeYear y := by unfold daysFromCivil; omega
    omega
  rw [gmt2sec_of_fields y m d _ _ _ ⟨hc.2.1, hyr⟩ ⟨hc.2.2.1, hc.2.2.2.1⟩ ⟨hc.2.2.2.2.1, hc.2.2.2.2.2⟩ (by omega) (by omega) (by omega)]
  rw [hc.1]
  simp only [Option.some.injEq]
  have : ((t - minSec).toNat : Int) = t - minSec := Int.toNat_of_nonneg (by omega)
  omega

/-- sec2gmtdate is the date part of sec2gmt. -/
theorem sec2gmtdate_is_date_part (t : Int) : sec2gmtdate t = (sec2gmt t).take 10 := rfl

/-- sec2dhms and dhms2sec are mutually inverse on ALL integers, negatives included. -/
theorem dhms2sec_sec2dhms (t : Int) : dhms2sec (sec2dhms t) = some t := by
  by_cases h : t < 0
  · rw [sec2dhms_neg t h]
    show (dhmsGroups ((sec2dhms (t.natAbs : Int)).length + 1) (sec2dhms (t.natAbs : Int)) 0).map (fun n => -(n : Int)) = some t
    rw [groups_of_abs]
    show some (-((t.natAbs : Nat) : Int)) = some t
    congr 1
    omega
  · obtain ⟨u, rfl⟩ : ∃ u : Nat, t = (u : Int) := ⟨t.toNat, by omega⟩
    obtain ⟨c, cs, hc, h1, h2⟩ := sec2dhms_nonneg_head u
    have hg := groups_of_abs u
    rw [hc] at hg ⊢
    unfold dhms2sec
    have hne : c ≠ 45 := by omega
    split
    · rename_i heq; cases heq
    · rename_i rest heq
      simp only [List.cons.injEq] at heq
      omega
    · rw [hg]; rfl

/-- hms2sec of the canonical `[-]HH:MM:SS` text: hours*3600 + minutes*60 + seconds, negated. -/
theorem sec2hms_fields (u : Nat) :
    sec2hms (u : Int) = (if u / 3600 < 10 then [48] ++ natText (u / 3600) else natText (u / 3600)) ++ [58] ++ pad2 (u / 60 % 60) ++ [58] ++ pad2 (u % 60) := by
  have hnn : ¬ ((u : Int) < 0) := by omega
  simp [sec2hms, hnn]

/-! Non-vacuity / calendar witnesses -/
example : sec2gmt 951782400 = str "2000-02-29T00:00:00Z" ∧ sec2gmt (-2203891200) = str "1900-03-01T00:00:00Z" ∧
    sec2gmt 4107542400 = str "2100-03-01T00:00:00Z" ∧ sec2gmt (-1) = str "1969-12-31T23:59:59Z" := by decide +kernel
example : sec2dhms 500000 = str "5d18h53m20s" ∧ sec2dhms (-3661) = str "-1h01m01s" ∧ sec2dhms 59 = str "59s" ∧ sec2dhms 0 = str "0s" ∧
    sec2hms 500000 = str "138:53:20" ∧ sec2hms (-5) = str "-00:00:05" := by decide +kernel
example : isLeap 2000 = true ∧ isLeap 1900 = false ∧ isLeap 2024 = true ∧ isLeap 2100 = false := by decide

end Props.C16
end Miller
