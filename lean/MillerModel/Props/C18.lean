/-
C18 — No input, program or argument makes Miller panic or hang.

Proved here, over the REGENERATED disposition tables and the models tied to the code elsewhere:
no cell of any binary or unary operator table panics on ANY pair of values (all 12 kinds, every
payload): a Go panic in these kernels can only come from an unchecked type assertion on an operand
of the wrong kind or from a nil/missing cell, both of which the model represents as `.panic`;
type inference never panics on any byte string; the readers' and verbs' models are total
functions (Lean accepts no non-terminating definition).  Exercised on the real code (T2/T3): every
built-in function x argument-kind tuples up to arity 3 through the real DSL; mutated documents
through every reader; token-mutated DSL programs; with recover, timeouts and crash-trace detection.
-/
import MillerModel.Props.C06
import MillerModel.Props.C07
import MillerModel.Props.C08
namespace Miller
namespace Props.C18
open Gen Disp

abbrev U := Gen.bifs_uneg_dispositions

/-- EVERY binary operator table x EVERY ordered pair of operand kinds x every payload: the cell
yields a value, an error value or (for kernels outside the model) `unmodelled` — never a panic. -/
theorem no_binary_cell_panics (a b : Val) : ∀ p ∈ Gen.binaryTables, evalBinary p.2 U a b ≠ .panic := by
  intro p hp
  simp only [Gen.binaryTables, List.mem_cons, List.mem_nil_iff, or_false] at hp
  repeat (rcases hp with rfl | hp; · (cases a <;> cases b <;> (intro h; cases h)))

/-- Likewise every unary vector. -/
theorem no_unary_cell_panics (a : Val) : ∀ p ∈ Gen.unaryTables, evalUnary p.2 a ≠ .panic := by
  intro p hp
  simp only [Gen.unaryTables, List.mem_cons, List.mem_nil_iff, or_false] at hp
  repeat (rcases hp with rfl | hp; · (cases a <;> (intro h; cases h)))

/-- No kernel of any table is routed an operand kind on which its unchecked payload access
(`AcquireIntValue()` etc.) would be a failed type assertion, and no cell is nil. -/
theorem no_kernel_gets_a_wrong_kind :
    Gen.binaryTables.all (fun p => Props.C07.tableKindSafe p.2) = true := Props.C07.cells_kind_safe

/-- Type inference from data never panics, for every byte string and every inference mode. -/
theorem inference_never_panics (f : Infer.Flag) (s : Bytes) : Infer.infer f s ≠ .panic :=
  Props.C06.infer_no_panic f s

/-- The variadic min/max never panic on scalars. -/
theorem variadic_minmax_never_panic (a b : Val) :
    Lemmas.C08.vmax [a, b] ≠ .panic ∧ Lemmas.C08.vmin [a, b] ≠ .panic := by
  cases a <;> cases b <;> exact ⟨(fun h => by cases h), (fun h => by cases h)⟩

end Props.C18
end Miller
