import MillerModel.Props.C06
import MillerModel.Props.C07
