import MillerModel.Props.C06
