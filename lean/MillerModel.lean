import MillerModel.Props.C06
import MillerModel.Props.C07
import MillerModel.Props.C08
import MillerModel.Props.C01
import MillerModel.Props.C11
import MillerModel.Props.C12
import MillerModel.Props.C03
import MillerModel.Props.C09
