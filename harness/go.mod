module verif/harness

go 1.25.0

require github.com/johnkerl/miller/v6 v6.0.0

require (
	github.com/facette/natsort v0.0.0-20181210072756-2cd4dd1e2dcb // indirect
	github.com/johnkerl/lumin v1.0.0 // indirect
	github.com/klauspost/compress v1.19.2 // indirect
	github.com/lestrrat-go/strftime v1.2.0 // indirect
	github.com/mattn/go-isatty v0.0.24 // indirect
	github.com/rivo/uniseg v0.4.7 // indirect
	golang.org/x/sys v0.47.0 // indirect
	golang.org/x/text v0.41.0 // indirect
	gopkg.in/yaml.v3 v3.0.1 // indirect
)

replace github.com/johnkerl/miller/v6 => /repo
