package main

import (
	"fmt"
	"strings"
	"strconv"

	"github.com/johnkerl/miller/v6/pkg/mlrval"
)

var c09Pool = []string{"1", "1.0", "0x1", "2", "10", "-3", "-3.5", "0", "-0", "0.0", "1e2", "100", "abc", "ABC", "Abc", "abd", "", "b", "B", "a10", "a9", "9223372036854775807", "9007199254740992", "1.5", "0.5", "-1e-3", "true", "xyz", "10a", " 1"}

func cmpFn(kind string) func(a, b *mlrval.Mlrval) int {
	switch kind {
	case "lex":
		return mlrval.LexicalAscendingComparator
	case "num":
		return mlrval.NumericAscendingComparator
	case "fold":
		return mlrval.CaseFoldAscendingComparator
	case "nat":
		return mlrval.NaturalAscendingComparator
	}
	return nil
}

func init() {
	ops["sortv"] = func(a []string) string { return verbsResult(splitFlags(a[0]), decodeRecords(a[1])) }
	ops["cmp"] = func(a []string) string {
		return strconv.Itoa(cmpFn(a[0])(mlrval.FromDeferredType(unhx(a[1])), mlrval.FromDeferredType(unhx(a[2]))))
	}
	ops["cmp3"] = func(a []string) string {
		f := cmpFn(a[0])
		mk := func(h string) *mlrval.Mlrval { return mlrval.FromDeferredType(unhx(h)) }
		s := func(x, y string) string { return strconv.Itoa(f(mk(x), mk(y))) }
		return s(a[1], a[2]) + " " + s(a[2], a[3]) + " " + s(a[1], a[3]) + " " + s(a[2], a[1]) + " " + s(a[1], a[1])
	}
	families["c09"] = genC09
}

func genC09(r *rng, thorough bool) {
	// comparators: all pairs of the pool against the model, all triples for the preorder laws
	natPool := append([]string{"a1", "a01", "a2b", "a2", "file10.txt", "file9.txt", "01", "99999999999999999999", "99999999999999999998", "x\xc3\xa9y2", "-", "a"}, c09Pool...)
	for _, a := range natPool {
		for _, b := range natPool {
			gen("cmp nat " + hx(a) + " " + hx(b))
		}
	}
	for _, k := range []string{"lex", "num", "fold"} {
		for _, a := range c09Pool {
			for _, b := range c09Pool {
				gen("cmp " + k + " " + hx(a) + " " + hx(b))
			}
		}
		step := 3
		if thorough {
			step = 1
		}
		for i := 0; i < len(c09Pool); i += step {
			for j := 0; j < len(c09Pool); j++ {
				for l := 0; l < len(c09Pool); l += step {
					gen("cmp3 " + k + " " + hx(c09Pool[i]) + " " + hx(c09Pool[j]) + " " + hx(c09Pool[l]))
				}
			}
		}
	}
	n := 300
	if thorough {
		n = 8000
	}
	flagKinds := [][]string{{"-f"}, {"-r"}, {"-nf"}, {"-nr"}, {"-n"}, {"-c"}, {"-c", "-r"}, {"-t"}, {"-t", "-r"}, {"-n", "-r"}, {"-n", "-f"}}
	natVals := []string{"", "", "a1", "a2", "a10", "a9", "b", "file10.txt", "file9.txt", "10", "9", "x2y", "x10y"}
	for i := 0; i < n/3; i++ {
		// natural-order keys first, with empties and ties, then a secondary key
		nr := 2 + r.intn(10)
		var rs []record
		for j := 0; j < nr; j++ {
			rs = append(rs, record{{"a", r.pick(natVals)}, {"b", r.pick([]string{"1", "2", "3", "10", "-1", ""})}, {"id", strconv.Itoa(j)}})
		}
		argv := append([]string{"sort"}, r.pick([]string{"-t", "-tr"}))
		if argv[1] == "-tr" {
			argv = []string{"sort", "-t", "-r"}
		}
		argv = append(argv, "a")
		argv = append(argv, flagKindsOf(r)...)
		argv = append(argv, "b")
		gen("sortv " + joinFlags(argv) + " " + encodeRecords(rs))
	}
	for i := 0; i < n; i++ {
		nr := r.intn(14)
		if r.chance(1, 10) {
			nr = 20 + r.intn(20)
		}
		var rs []record
		for j := 0; j < nr; j++ {
			var rec record
			for _, k := range []string{"a", "b", "c"} {
				if r.chance(1, 8) {
					continue // missing key
				}
				rec = append(rec, field{k, r.pick(c09Pool)})
			}
			rec = append(rec, field{"id", strconv.Itoa(j)})
			rs = append(rs, rec)
		}
		nk := 1 + r.intn(3)
		argv := []string{"sort"}
		keys := []string{"a", "b", "c"}
		for k := 0; k < nk; k++ {
			argv = append(argv, flagKinds[r.intn(len(flagKinds))]...)
			argv = append(argv, keys[k])
		}
		gen("sortv " + joinFlags(argv) + " " + encodeRecords(rs))
	}
}

func flagKindsOf(r *rng) []string {
	ks := [][]string{{"-f"}, {"-r"}, {"-nf"}, {"-nr"}, {"-c"}, {"-t"}}
	return ks[r.intn(len(ks))]
}

func init() {
	// dslsort <flags> <items> => output items of sort([items...], "flags"), ';'-joined
	ops["dslsort"] = func(a []string) string {
		flags := unhx(a[0])
		items := splitFlags(a[1])
		var lits []string
		for _, it := range items {
			if it != "" && (it[0] == '-' || (it[0] >= '0' && it[0] <= '9')) {
				lits = append(lits, it)
			} else {
				lits = append(lits, "\""+it+"\"")
			}
		}
		arr := "["
		for i, l := range lits {
			if i > 0 {
				arr += ","
			}
			arr += l
		}
		arr += "]"
		expr := "sort(" + arr + ")"
		if flags != "-" {
			expr = "sort(" + arr + ", \"" + flags + "\")"
		}
		ec, out := runMlrN([]string{"-n", "put", "end{print joinv(" + expr + ", \";\")}"})
		if ec != 0 {
			return "err"
		}
		return hx(out)
	}
	// dslsortmv <flags> <items> => values of sort({"k0": item0, "k1": item1, ...}, flags + "v") (a map sorted BY VALUE),
	// ';'-joined; "err-pairing" if some key no longer carries its own value
	ops["dslsortmv"] = func(a []string) string {
		flags := unhx(a[0])
		if flags == "-" {
			flags = ""
		}
		items := splitFlags(a[1])
		m := "{"
		for i, it := range items {
			if i > 0 {
				m += ","
			}
			lit := "\"" + it + "\""
			if it != "" && (it[0] == '-' || (it[0] >= '0' && it[0] <= '9')) {
				lit = it
			}
			m += fmt.Sprintf("\"k%d\": %s", i, lit)
		}
		m += "}"
		ec, out := runMlrN([]string{"-n", "put", "end{m = " + m + "; s = sort(m, \"" + flags + "v\"); ok = true; for (k, v in s) { if ((m[k] . \"\") != (v . \"\")) { ok = false } } if (!ok || length(s) != length(m)) { print \"PAIRING\" } else { print joinv(s, \";\") } }"})
		if ec != 0 {
			return "err"
		}
		if strings.HasPrefix(out, "PAIRING") {
			return hx("err-pairing")
		}
		return hx(out)
	}
	families["c09dsl"] = func(r *rng, thorough bool) {
		n := 150
		if thorough {
			n = 3000
		}
		pool := []string{"1", "2", "10", "-3", "-3.5", "0", "1.5", "0.5", "100", "1e2", "abc", "ABC", "Abc", "abd", "", "b", "B", "a10", "a9", "xyz", "16", "0x10", "a2", "file10", "file9"}
		for i := 0; i < n; i++ {
			k := r.intn(9)
			var items []string
			for j := 0; j < k; j++ {
				items = append(items, r.pick(pool))
			}
			fl := r.pick([]string{"-", "n", "f", "c", "nr", "fr", "cr", "r", "t", "tr"})
			gen("dslsort " + hx(fl) + " " + joinFlags(items))
			if len(items) > 0 {
				gen("dslsortmv " + hx(r.pick([]string{"-", "n", "f", "c", "nr", "fr", "cr", "rc", "r"})) + " " + joinFlags(items))
			}
		}
	}
}
