package main

import (
	"os"
	"path/filepath"
	"sort"
	"strconv"
	"strings"
)

func init() {
	// join <argv> <left records> <right records> => records | err
	// "@L" in argv is replaced by the path of the left file, written by the real writer in the
	// format named by the word after "@fmt:" (json | dkvp).
	ops["join"] = func(a []string) string {
		argv := splitFlags(a[0])
		lefts := decodeRecords(a[1])
		rights := decodeRecords(a[2])
		format := "json"
		var real []string
		for _, w := range argv {
			if strings.HasPrefix(w, "@fmt:") {
				format = w[5:]
				continue
			}
			real = append(real, w)
		}
		text, err := writeRecords([]string{"--o" + format}, lefts)
		if err != nil {
			return "err"
		}
		fn := filepath.Join(scratch(), "left."+format)
		if err := os.WriteFile(fn, []byte(text), 0o644); err != nil {
			return "err"
		}
		for i, w := range real {
			if w == "@L" {
				real[i] = fn
			}
		}
		// the left-file format flags go right after the verb name
		full := append([]string{real[0], "-i", format}, real[1:]...)
		return verbsResult(full, rights)
	}
	families["c13"] = genC13
}

func joinSide(r *rng, n int, keyNames []string, other []string, side string) []record {
	keyVals := []string{"1", "2", "3", "01", "1.0", "", "x,y", "x", "y,z", "z", "pan", "PAN"}
	var rs []record
	for i := 0; i < n; i++ {
		var rec record
		has := func(k string) bool {
			for _, f := range rec {
				if f.k == k {
					return true
				}
			}
			return false
		}
		// heterogeneous field order: sometimes payload first
		payloadFirst := r.chance(1, 4)
		add := func() {
			for _, k := range keyNames {
				if r.chance(1, 10) || has(k) {
					continue // missing join field
				}
				rec = append(rec, field{k, r.pick(keyVals)})
			}
		}
		if !payloadFirst {
			add()
		}
		for _, k := range other {
			if r.chance(1, 4) || has(k) {
				continue
			}
			rec = append(rec, field{k, side + strconv.Itoa(i)})
		}
		if payloadFirst {
			add()
		}
		rs = append(rs, rec)
	}
	return rs
}

func sortByKeys(rs []record, keys []string) {
	get := func(rec record, k string) string {
		for _, f := range rec {
			if f.k == k {
				return f.v
			}
		}
		return ""
	}
	sort.SliceStable(rs, func(i, j int) bool {
		for _, k := range keys {
			a, b := get(rs[i], k), get(rs[j], k)
			if a != b {
				return a < b
			}
		}
		return false
	})
}

func genC13(r *rng, thorough bool) {
	n := 400
	if thorough {
		n = 12000
	}
	for i := 0; i < n; i++ {
		// join field naming: same on both sides, or -l/-r/-j all different; one or two fields
		two := r.chance(1, 3)
		var j, l, rr []string
		switch r.intn(4) {
		case 0, 1:
			j = []string{"id"}
			if two {
				j = []string{"id", "k2"}
			}
			l, rr = j, j
		case 2:
			j, l, rr = []string{"id"}, []string{"lid"}, []string{"rid"}
			if two {
				j, l, rr = []string{"id", "k2"}, []string{"lid", "lk2"}, []string{"rid", "rk2"}
			}
		case 3:
			j, l, rr = []string{"out"}, []string{"id"}, []string{"id"}
			if two {
				j, l, rr = []string{"out", "v"}, []string{"id", "v"}, []string{"id", "w"}
			}
		}
		// name collisions between the sides' payload fields and with the output join names
		lo := []string{"v", "lv", "name", "out"}
		ro := []string{"v", "rv", "name", "id"}
		lefts := joinSide(r, r.intn(7), l, lo, "L")
		rights := joinSide(r, r.intn(7), rr, ro, "R")
		argv := []string{"join", "-j", strings.Join(j, ",")}
		if !(len(l) == len(j) && strings.Join(l, ",") == strings.Join(j, ",")) || r.chance(1, 5) {
			argv = append(argv, "-l", strings.Join(l, ","))
		}
		if !(strings.Join(rr, ",") == strings.Join(j, ",")) || r.chance(1, 5) {
			argv = append(argv, "-r", strings.Join(rr, ","))
		}
		if r.chance(1, 3) {
			argv = append(argv, "--lp", "L_")
		}
		if r.chance(1, 3) {
			argv = append(argv, "--rp", "R_")
		}
		if r.chance(1, 5) {
			argv = append(argv, "--lk", r.pick([]string{"v", "lv,name", "nosuch", "id"}))
		}
		emitKind := r.intn(6)
		switch emitKind {
		case 1:
			argv = append(argv, "--ul")
		case 2:
			argv = append(argv, "--ur")
		case 3:
			argv = append(argv, "--ul", "--ur")
		case 4:
			argv = append(argv, "--np", "--ul", "--ur")
		case 5:
			argv = append(argv, "--np", r.pick([]string{"--ul", "--ur"}))
		}
		if r.chance(1, 4) {
			argv = append(argv, "--ignore-empty")
		}
		sorted := r.chance(1, 4)
		if sorted {
			// sorted-input mode is specified for inputs sorted by the join keys with every key present
			full := func(rs []record, keys []string) []record {
				var out []record
				for _, rec := range rs {
					ok := true
					for _, k := range keys {
						found := false
						for _, f := range rec {
							if f.k == k {
								found = true
							}
						}
						ok = ok && found
					}
					if ok {
						out = append(out, rec)
					}
				}
				return out
			}
			lefts, rights = full(lefts, l), full(rights, rr)
			sortByKeys(lefts, l)
			sortByKeys(rights, rr)
			argv = append(argv, "-s")
		}
		argv = append(argv, "@fmt:json", "-f", "@L")
		gen("join " + joinFlags(argv) + " " + encodeRecords(lefts) + " " + encodeRecords(rights))
	}
}
