package main

import (
	"fmt"
	"regexp"
	"sort"
	"strconv"
	"strings"

	"github.com/johnkerl/miller/v6/pkg/climain"
	"github.com/johnkerl/miller/v6/pkg/mlrval"
)

var addrRe = regexp.MustCompile(`0x[0-9a-f]{6,}`)

func optionsText(flags []string) (string, string, error) {
	argv := append([]string{"mlr", "--norc"}, flags...)
	argv = append(argv, "cat")
	options, _, err := climain.ParseCommandLine(argv)
	if err != nil {
		return "", "", err
	}
	r := addrRe.ReplaceAllString(fmt.Sprintf("%+v", options.ReaderOptions), "PTR")
	w := addrRe.ReplaceAllString(fmt.Sprintf("%+v", options.WriterOptions), "PTR")
	return r, w, nil
}

// ---- nested documents as leaf lists: entries "comp/comp/...=leaf" joined by ";", comp = k<hex>|i<hex>, leaf = s<hex>|M|A
type dcomp struct {
	key string
	idx bool
}
type dentry struct {
	path []dcomp
	leaf string // "s<text>", "M", "A"
}

func decodeDoc(s string) []dentry {
	var out []dentry
	if s == "-" {
		return out
	}
	for _, e := range strings.Split(s, ";") {
		kv := strings.SplitN(e, "=", 2)
		var p []dcomp
		for _, c := range strings.Split(kv[0], "/") {
			p = append(p, dcomp{unhx(c[1:]), c[0] == 'i'})
		}
		leaf := kv[1]
		if leaf[0] == 's' {
			leaf = "s" + unhx(leaf[1:])
		}
		out = append(out, dentry{p, leaf})
	}
	return out
}

func encodeDoc(d []dentry) string {
	if len(d) == 0 {
		return "-"
	}
	var es []string
	for _, e := range d {
		var cs []string
		for _, c := range e.path {
			t := "k"
			if c.idx {
				t = "i"
			}
			cs = append(cs, t+hx(c.key))
		}
		leaf := e.leaf
		if leaf[0] == 's' {
			leaf = "s" + hx(leaf[1:])
		}
		es = append(es, strings.Join(cs, "/")+"="+leaf)
	}
	return strings.Join(es, ";")
}

// build the real nested record from the leaf list
func buildRecord(d []dentry) *mlrval.Mlrmap {
	rec := mlrval.NewMlrmapAsRecord()
	for _, e := range d {
		var leaf *mlrval.Mlrval
		switch e.leaf[0] {
		case 'M':
			leaf = mlrval.FromEmptyMap()
		case 'A':
			leaf = mlrval.FromArray([]*mlrval.Mlrval{})
		default:
			leaf = mlrval.FromDeferredType(e.leaf[1:])
		}
		var indices []*mlrval.Mlrval
		for _, c := range e.path {
			if c.idx {
				n, _ := strconv.Atoi(c.key)
				indices = append(indices, mlrval.FromInt(int64(n)))
			} else {
				indices = append(indices, mlrval.FromString(c.key))
			}
		}
		_ = rec.PutIndexed(indices, leaf)
	}
	return rec
}

func walkValue(v *mlrval.Mlrval, path []dcomp, out *[]dentry) {
	if v.IsMap() {
		m := v.GetMap()
		if m.IsEmpty() {
			*out = append(*out, dentry{append([]dcomp{}, path...), "M"})
			return
		}
		for pe := m.Head; pe != nil; pe = pe.Next {
			walkValue(pe.Value, append(path, dcomp{pe.Key, false}), out)
		}
		return
	}
	if v.IsArray() {
		a := v.GetArray()
		if len(a) == 0 {
			*out = append(*out, dentry{append([]dcomp{}, path...), "A"})
			return
		}
		for i, x := range a {
			walkValue(x, append(path, dcomp{strconv.Itoa(i + 1), true}), out)
		}
		return
	}
	*out = append(*out, dentry{append([]dcomp{}, path...), "s" + v.String()})
}

func walkRecord(rec *mlrval.Mlrmap) []dentry {
	var out []dentry
	for pe := rec.Head; pe != nil; pe = pe.Next {
		walkValue(pe.Value, []dcomp{{pe.Key, false}}, &out)
	}
	return out
}

// sameBehaviour writes a sample with the INPUT settings of flagsB (turned into output settings), then runs
// `cat` under flagsA and under flagsB on it and compares the bytes produced.
func sameBehaviour(flagsA, flagsB []string) (bool, string) {
	var wflags []string
	for i := 0; i < len(flagsB); i++ {
		f := flagsB[i]
		switch {
		case strings.HasPrefix(f, "--i") && f != "--ifs" && f != "--ips" && f != "--irs" && f != "--io" && f != "--implicit-csv-header":
			wflags = append(wflags, "--o"+f[3:])
		case f == "--ifs" || f == "--ips" || f == "--irs":
			wflags = append(wflags, "--o"+f[3:], flagsB[i+1])
			i++
		case f == "--fs" || f == "--ps" || f == "--rs":
			wflags = append(wflags, "--o"+f[2:], flagsB[i+1])
			i++
		case f == "--io":
			wflags = append(wflags, "--o"+flagsB[i+1])
			i++
		case f == "--repifs":
		case f == "--nidx" || f == "--csv" || f == "--tsv" || f == "--json" || f == "--jsonl" || f == "--dkvp" || f == "--xtab" || f == "--pprint" || f == "--yaml" ||
			f == "--asv" || f == "--usv" || f == "--asvlite" || f == "--usvlite" || f == "--csvlite" || f == "--tsvlite":
			wflags = append(wflags, "--o"+f[2:])
		case (f == "--ofs" || f == "--ops" || f == "--ors" || f == "--flatsep") && i+1 < len(flagsB):
			i++
		}
	}
	rs := []record{{{"a", "1"}, {"b", "x y"}, {"c", "3.5"}}, {{"a", "4"}, {"b", "hello"}, {"c", "6"}}}
	text, err := writeRecords(wflags, rs)
	if err != nil {
		return false, "cannot write sample: " + err.Error()
	}
	ea, oa := runMlr(append(append([]string{}, flagsA...), "cat"), text)
	eb, ob := runMlr(append(append([]string{}, flagsB...), "cat"), text)
	if ea == eb && oa == ob {
		return true, ""
	}
	return false, "exit " + strconv.Itoa(ea) + "/" + strconv.Itoa(eb) + " A=" + oa + " B=" + ob
}

func init() {
	// optseq <flagsA> <flagsB> => same | diff ... | err
	ops["optseq"] = func(a []string) string {
		r1, w1, e1 := optionsText(splitFlags(a[0]))
		r2, w2, e2 := optionsText(splitFlags(a[1]))
		if e1 != nil || e2 != nil {
			if e1 != nil && e2 != nil {
				return "botherr"
			}
			return "err"
		}
		if r1 == r2 && w1 == w2 {
			return "same"
		}
		// the option structures differ (e.g. in was-specified bookkeeping, or json+unwrapped vs jsonl):
		// what the property promises is the same OUTCOME - compare behaviour on a sample document
		if same, detail := sameBehaviour(splitFlags(a[0]), splitFlags(a[1])); same {
			return "same"
		} else if detail != "" {
			return "diff:behaviour:" + hx(detail)
		}
		// first differing field, for the report
		diff := func(x, y string) string {
			xs, ys := strings.Fields(x), strings.Fields(y)
			for i := range xs {
				if i >= len(ys) || xs[i] != ys[i] {
					if i < len(ys) {
						return xs[i] + "<>" + ys[i]
					}
					return xs[i]
				}
			}
			return "len"
		}
		if r1 != r2 {
			return "diff:reader:" + hx(diff(r1, r2))
		}
		return "diff:writer:" + hx(diff(w1, w2))
	}
	ops["optne"] = ops["optseq"]
	// flat <sep hex> <doc> => <flat record> <doc after unflatten>
	ops["flat"] = func(a []string) string {
		return guard(func() string {
			sep := unhx(a[0])
			rec := buildRecord(decodeDoc(a[1]))
			// the record as built (PutIndexed may have normalised it): reported so the driver can see it
			built := encodeDoc(walkRecord(rec))
			rec.Flatten(sep)
			flat := encodeRecords([]record{fromMlrmap(rec)})
			un := rec.CopyUnflattened(sep)
			return built + " " + flat + " " + encodeDoc(walkRecord(un))
		})
	}
	// conv3 <A> <B> <C> <records> => same | which law failed
	ops["conv3"] = func(a []string) string {
		A, B, C := a[0], a[1], a[2]
		rs := decodeRecords(a[3])
		ta, err := writeRecords([]string{"--o" + A}, rs)
		if err != nil {
			return "err"
		}
		conv := func(from, to, text string) (string, bool) {
			ec, out := runMlr([]string{"--i" + from, "--o" + to, "cat"}, text)
			return out, ec == 0
		}
		b1, ok1 := conv(A, B, ta)
		a2, ok2 := conv(B, A, b1)
		c1, ok3 := conv(A, C, ta)
		b2, ok4 := conv(C, B, c1)
		if !(ok1 && ok2 && ok3 && ok4) {
			return "err"
		}
		ra, e1 := readRecords([]string{"--i" + A}, ta)
		ra2, e2 := readRecords([]string{"--i" + A}, a2)
		if e1 != nil || e2 != nil {
			return "err"
		}
		if encodeRecords(ra) != encodeRecords(ra2) {
			return "ABA:" + hx(ta) + ":" + hx(a2)
		}
		if b1 != b2 {
			return "ACB:" + hx(b1) + ":" + hx(b2)
		}
		return "same"
	}
	families["c02"] = genC02
}

func genC02(r *rng, thorough bool) {
	// ---- flag equivalences: keystroke savers, -i/-o/--io forms, named separators
	letters := map[string]string{"c": "csv", "t": "tsv", "j": "json", "l": "jsonl", "d": "dkvp", "n": "nidx", "x": "xtab", "p": "pprint", "m": "markdown", "y": "yaml"}
	var ls []string
	for k := range letters {
		ls = append(ls, k)
	}
	sort.Strings(ls)
	for _, x := range ls {
		for _, y := range ls {
			if x == "m" && y == "m" {
				continue
			}
			gen("optseq " + joinFlags([]string{"--" + x + "2" + y}) + " " + joinFlags([]string{"--i" + letters[x], "--o" + letters[y]}))
		}
		if x != "m" && x != "p" && x != "y" {
			gen("optseq " + joinFlags([]string{"--" + x + "2b"}) + " " + joinFlags([]string{"--i" + letters[x], "--opprint", "--barred-output"}))
		}
		f := letters[x]
		gen("optseq " + joinFlags([]string{"-i", f}) + " " + joinFlags([]string{"--i" + f}))
		gen("optseq " + joinFlags([]string{"-o", f}) + " " + joinFlags([]string{"--o" + f}))
		gen("optseq " + joinFlags([]string{"--io", f}) + " " + joinFlags([]string{"--i" + f, "--o" + f}))
		if f != "markdown" {
			gen("optseq " + joinFlags([]string{"--" + f}) + " " + joinFlags([]string{"--i" + f, "--o" + f}))
		}
	}
	// negative control: these are NOT equivalent and must be reported as different
	gen("optne " + joinFlags([]string{"--ojsonl"}) + " " + joinFlags([]string{"--ojson", "--jvstack"}))
	gen("optne " + joinFlags([]string{"--icsv", "--ojson", "--ifs", "semicolon"}) + " " + joinFlags([]string{"--icsv", "--ojson", "--ifs", ","}))
	for _, p := range [][2][]string{
		{{"-c"}, {"--csv"}}, {{"-t"}, {"--tsv"}}, {{"-j"}, {"--json"}}, {{"--c2c"}, {"--csv"}}, {{"--t2t"}, {"--tsv"}}, {{"--j2j"}, {"--json"}},
		{{"-p"}, {"--nidx", "--fs", "space", "--repifs"}}, {{"-T"}, {"--nidx", "--fs", "tab"}},
		{{"--icsv", "--ojson"}, {"--ojson", "--icsv"}}, {{"--c2p"}, {"--icsv", "--opprint"}}, {{"--ixtab", "--ojson"}, {"--x2j"}},
		{{"--asv"}, {"--iasv", "--oasv"}}, {{"--usv"}, {"--iusv", "--ousv"}}, {{"--asvlite"}, {"--iasvlite", "--oasvlite"}}, {{"--usvlite"}, {"--iusvlite", "--ousvlite"}},
		{{"--csvlite"}, {"--icsvlite", "--ocsvlite"}}, {{"--tsvlite"}, {"--itsvlite", "--otsvlite"}}, {{"--c2t"}, {"--icsv", "--otsv"}},
		{{"--fs", ";"}, {"--ifs", ";", "--ofs", ";"}}, {{"--ps", ":"}, {"--ips", ":", "--ops", ":"}}, {{"--rs", ";"}, {"--irs", ";", "--ors", ";"}},
	} {
		gen("optseq " + joinFlags(p[0]) + " " + joinFlags(p[1]))
	}
	aliases := map[string]string{"comma": ",", "semicolon": ";", "tab": "\t", "space": " ", "pipe": "|", "colon": ":", "equals": "=", "newline": "\n", "lf": "\n", "crlf": "\r\n",
		"cr": "\r", "ascii_esc": "\x1b", "ascii_etx": "\x03", "ascii_fs": "\x1c", "ascii_gs": "\x1d", "ascii_null": "\x00", "ascii_rs": "\x1e", "ascii_soh": "\x01", "ascii_stx": "\x02",
		"ascii_us": "\x1f", "asv_fs": "\x1f", "asv_rs": "\x1e", "usv_fs": "\xe2\x90\x9f", "usv_rs": "\xe2\x90\x9e"}
	var an []string
	for k := range aliases {
		an = append(an, k)
	}
	sort.Strings(an)
	for _, name := range an {
		for _, fl := range []string{"--ifs", "--ofs", "--ips", "--ops", "--irs", "--ors", "--fs", "--flatsep"} {
			gen("optseq " + joinFlags([]string{"--icsv", "--ojson", fl, name}) + " " + joinFlags([]string{"--icsv", "--ojson", fl, aliases[name]}))
		}
	}
	// ---- flatten / unflatten on generated nested documents
	n := 400
	if thorough {
		n = 12000
	}
	keys := []string{"a", "b", "c", "x", "y", "k1", "é", "a b", "1", "2", "3", "10", "01", "0", "-1", "", ".", "a.b", ":", "{}", "values"}
	scal := []string{"1", "2.5", "abc", "", "true", "{}", "[]", "0x1F", "a.b", "null", "{", " "}
	for i := 0; i < n; i++ {
		var d []dentry
		var genNode func(path []dcomp, depth int)
		genNode = func(path []dcomp, depth int) {
			switch k := r.intn(10); {
			case depth >= 4 || k < 5:
				d = append(d, dentry{append([]dcomp{}, path...), "s" + r.pick(scal)})
			case k == 5:
				d = append(d, dentry{append([]dcomp{}, path...), "M"})
			case k == 6:
				d = append(d, dentry{append([]dcomp{}, path...), "A"})
			case k < 9: // map
				used := map[string]bool{}
				for j := 1 + r.intn(3); j > 0; j-- {
					key := r.pick(keys)
					if r.chance(4, 5) {
						key = r.pick(keys[:6])
					}
					if used[key] {
						continue
					}
					used[key] = true
					genNode(append(path, dcomp{key, false}), depth+1)
				}
			default: // array
				for j, m := 1, 1+r.intn(3); j <= m; j++ {
					genNode(append(path, dcomp{strconv.Itoa(j), true}), depth+1)
				}
			}
		}
		used := map[string]bool{}
		for j := 1 + r.intn(4); j > 0; j-- {
			key := r.pick(keys[:8])
			if used[key] {
				continue
			}
			used[key] = true
			genNode([]dcomp{{key, false}}, 1)
		}
		sep := "."
		if r.chance(1, 6) {
			sep = r.pick([]string{":", "_", "/"})
		}
		gen("flat " + hx(sep) + " " + encodeDoc(d))
	}
	// ---- conversions between formats for data representable in all of them
	fm := []string{"csv", "tsv", "json", "jsonl", "dkvp", "xtab", "pprint", "markdown", "yaml", "csvlite", "usv", "asv"}
	m := 60
	if thorough {
		m = 1500
	}
	vals := []string{"1", "2.5", "abc", "x_y", "-3", "0", "hello", "Z", "7e3", "true"}
	for i := 0; i < m; i++ {
		var rs []record
		nf := 1 + r.intn(4)
		for j := r.intn(4) + 1; j > 0; j-- {
			var rec record
			for k := 0; k < nf; k++ {
				rec = append(rec, field{"f" + strconv.Itoa(k), r.pick(vals)})
			}
			rs = append(rs, rec)
		}
		A, B, C := r.pick(fm), r.pick(fm), r.pick(fm)
		gen("conv3 " + A + " " + B + " " + C + " " + encodeRecords(rs))
	}
}
