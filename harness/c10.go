package main

import (
	"strconv"

	"github.com/johnkerl/miller/v6/pkg/bifs"
	"github.com/johnkerl/miller/v6/pkg/mlrval"
)

func init() {
	// perrec <argv> <records> => same | diff:<i> | err   (a verb that keeps no state from record to record:
	// its output on a stream equals the concatenation of its outputs on each record alone)
	ops["perrec"] = func(a []string) string {
		argv := splitFlags(a[0])
		rs := decodeRecords(a[1])
		all, _, err := runVerbs(argv, rs, "f1")
		if err != nil {
			return "err"
		}
		var cat []record
		for _, r1 := range rs {
			one, _, err := runVerbs(argv, []record{r1}, "f1")
			if err != nil {
				return "err"
			}
			cat = append(cat, one...)
		}
		if encodeRecords(all) == encodeRecords(cat) {
			return "same"
		}
		for i := range all {
			if i >= len(cat) || encodeRecords([]record{all[i]}) != encodeRecords([]record{cat[i]}) {
				return "diff:" + strconv.Itoa(i)
			}
		}
		return "diff:len"
	}
	families["c10"] = genC10
	// pctidx <p text> <n> => index chosen by GetPercentileNonInterpolated on the array [0, 1, ..., n-1]
	ops["pctidx"] = func(a []string) string {
		p, err := strconv.ParseFloat(a[0], 64)
		if err != nil {
			return "err"
		}
		n, _ := strconv.Atoi(a[1])
		arr := make([]*mlrval.Mlrval, n)
		for i := range arr {
			arr[i] = mlrval.FromInt(int64(i))
		}
		return bifs.GetPercentileNonInterpolated(arr, n, p).String()
	}
}

// streams for aggregation: numeric value fields x,y (ints, floats, hex, empties, strings), group keys a,b
func aggStream(r *rng, maxN int) []record {
	n := r.intn(maxN + 1)
	var rs []record
	for i := 0; i < n; i++ {
		var rec record
		if !r.chance(1, 8) {
			rec = append(rec, field{"a", r.pick([]string{"pan", "eks", "wye", "", "1", "01", "x,y", "x", "p\\", "p"})})
		}
		if !r.chance(1, 6) {
			rec = append(rec, field{"b", r.pick([]string{"u", "v", "a,b", "1.0", "z", "y,z", ",q", "\\,q"})})
		}
		if !r.chance(1, 8) {
			rec = append(rec, field{"x", r.pick([]string{"1", "2", "3", "-4", "10", "0x10", "2.5", "0.1", "0.2", "", "abc", "1e3", "9223372036854775807", "7", "7", "-0.5", "3.0"})})
		}
		if !r.chance(1, 5) {
			rec = append(rec, field{"y", r.pick([]string{"5", "6", "", "1.5", "zz", "100"})})
		}
		rec = append(rec, field{"i", strconv.Itoa(i)})
		rs = append(rs, rec)
	}
	return rs
}

// records for merge-fields: several numeric columns whose names share substrings
func mergeStream(r *rng) []record {
	n := 1 + r.intn(5)
	vals := []string{"1", "2", "3", "-4", "10", "0x10", "2.5", "0.5", "", "abc", "7", "7", "3.0", "100"}
	var rs []record
	for i := 0; i < n; i++ {
		var rec record
		for _, k := range []string{"a_in_x", "a_out_x", "b_in_y", "b_out_x", "c", "a_in_z"} {
			if r.chance(1, 5) {
				continue
			}
			rec = append(rec, field{k, r.pick(vals)})
		}
		rs = append(rs, rec)
	}
	return rs
}

func genC10(r *rng, thorough bool) {
	n := 120
	if thorough {
		n = 3000
	}
	emit := func(argv []string, rs []record) {
		gen("verbs " + joinFlags(argv) + " " + encodeRecords(rs))
		gen("verbsx " + joinFlags(argv) + " " + encodeRecords(rs))
	}
	// percentile index: every integer percentile (and some fractional ones) x group sizes 1..N
	maxN := 130
	if thorough {
		maxN = 420
	}
	for _, p := range []string{"0.1", "12.5", "33.3", "99.9", "66.6", "0.5", "2.5", "97.5"} {
		for k := 1; k <= maxN; k++ {
			gen("pctidx " + p + " " + strconv.Itoa(k))
		}
	}
	for p := 0; p <= 100; p++ {
		for k := 1; k <= maxN; k++ {
			gen("pctidx " + strconv.Itoa(p) + " " + strconv.Itoa(k))
		}
	}
	// aggregating verbs that have no Lean model: swept for "a result or an error, never a panic" on numeric
	// streams in which fields come and go from record to record (a field first seen late in its group, ...)
	for i := 0; i < n/2+20; i++ {
		var rs []record
		m := r.intn(9)
		for j := 0; j < m; j++ {
			var rec record
			if !r.chance(1, 4) {
				rec = append(rec, field{"a", r.pick([]string{"pan", "eks", "pan"})})
			}
			if !r.chance(1, 3) {
				rec = append(rec, field{"x", r.pick([]string{"1", "2", "3", "-4", "0", "2.5", "7"})})
			}
			if !r.chance(1, 3) {
				rec = append(rec, field{"y", r.pick([]string{"5", "6", "1.5", "0", "100"})})
			}
			rs = append(rs, rec)
		}
		g := r.pick([]string{"a", "nosuch"})
		for _, argv := range [][]string{
			{"fraction", "-f", "x,y"}, {"fraction", "-f", "x,y", "-g", g}, {"fraction", "-f", "y,x", "-c"}, {"fraction", "-f", "x,y", "-p", "-g", g},
			{"top", "-f", "x,y"}, {"top", "-n", "2", "-f", "x", "-g", g, "-a"}, {"top", "-f", "y", "--min", "-o", "best"},
			{"step", "-a", "shift,shift_lag,shift_lead,delta,ratio,counter,count,rsum,rprod", "-f", "x,y"}, {"step", "-a", "ewma", "-d", "0.1,0.9", "-f", "x", "-g", g},
			{"step", "-a", "slwin_2_2,from-first", "-f", "y"}, {"histogram", "-f", "x,y", "--lo", "0", "--hi", "10", "--nbins", "3"},
			{"histogram", "-f", "x,y", "--auto", "--nbins", "2"}, {"most-frequent", "-f", g}, {"least-frequent", "-f", "a", "-b"},
			{"stats2", "-a", "linreg-ols,r2,cov,corr", "-f", "x,y"}, {"stats2", "-a", "linreg-pca", "-f", "x,y", "-g", g}, {"stats2", "--fit", "-a", "linreg-ols", "-f", "x,y"},
			{"count-similar", "-g", g}, {"sec2gmt", "x,y"}, {"sec2gmtdate", "x"}, {"fill-empty"}, {"unsparsify"}, {"unsparsify", "-f", "x,y,z"},
			{"stats1", "-a", "var,meaneb,skewness,kurtosis,first,last", "-f", "x,y", "-g", g}, {"stats1", "-a", "p50,iqr,lof,uof", "-i", "-f", "x,y"},
			{"merge-fields", "-a", "sum,count,var", "-f", "x,y", "-o", "out"}, {"seqgen", "--start", "1", "--stop", "5", "then", "fraction", "-f", "i"},
		} {
			gen("verbs " + joinFlags(argv) + " " + encodeRecords(rs))
		}
	}
	// merge-fields keeps nothing from one record to the next, whatever the accumulator (its accumulators are
	// reset and re-used): every accumulator name, including those without a Lean model
	allAccs := []string{"count", "sum", "mean", "min", "max", "mode", "antimode", "first", "last", "distinct_count", "null_count", "minlen", "maxlen",
		"var", "stddev", "meaneb", "skewness", "kurtosis", "median", "p10", "p25.2", "p75", "iqr", "lof", "lif", "uif", "uof"}
	for i := 0; i < n/3+10; i++ {
		var rs []record
		for j := 2 + r.intn(4); j > 0; j-- {
			var rec record
			for _, k := range []string{"a_in_x", "a_out_x", "b_in_y", "b_out_x", "a_in_z", "b_mid_x"} {
				if !r.chance(1, 6) {
					rec = append(rec, field{k, r.pick([]string{"1", "2", "3", "-4", "10", "2.5", "0.5", "7", "100", "0", "-1"})})
				}
			}
			rs = append(rs, rec)
		}
		a1, a2 := r.pick(allAccs), r.pick(allAccs)
		for _, argv := range [][]string{{"merge-fields", "-a", a1 + "," + a2, "-f", "a_in_x,a_out_x,b_in_y,b_out_x,a_in_z", "-o", "out"},
			{"merge-fields", "-k", "-a", a1, "-f", "a_,b_", "-o", "out"}, {"merge-fields", "-a", a2 + "," + a1, "-c", "_in,_out,_mid"},
			{"merge-fields", "-i", "-a", a1 + "," + a2, "-c", "a_,b_"}} {
			gen("perrec " + joinFlags(argv) + " " + encodeRecords(rs))
		}
	}
	gl := []string{"a", "b", "a,b", "nosuch", "b,a"}
	accs := []string{"count", "sum", "mean", "min", "max", "mode", "antimode", "distinct_count", "null_count", "minlen", "maxlen", "median", "p10", "p25", "p75", "p90", "p0", "p100", "p50"}
	for i := 0; i < n; i++ {
		rs := aggStream(r, 14)
		if r.chance(1, 10) {
			rs = aggStream(r, 40)
		}
		g := r.pick(gl)
		emit([]string{"count"}, rs)
		emit([]string{"count", "-g", g}, rs)
		emit([]string{"count", "-n", "-g", g}, rs)
		emit([]string{"count", "-o", "N", "-g", g}, rs)
		emit([]string{"count-distinct", "-f", g}, rs)
		emit([]string{"count-distinct", "-n", "-f", g}, rs)
		emit([]string{"count-distinct", "-u", "-f", g}, rs)
		emit([]string{"count-distinct", "-f", g, "-o", "N"}, rs)
		emit([]string{"uniq", "-g", g}, rs)
		emit([]string{"uniq", "-g", g, "-c"}, rs)
		emit([]string{"uniq", "-g", g, "-n"}, rs)
		emit([]string{"uniq", "-a"}, rs)
		emit([]string{"count-similar", "-g", g}, rs)
		emit([]string{"count-similar", "-g", g, "-o", "N"}, rs)
		emit([]string{"fill-down", "-f", "x,y"}, rs)
		emit([]string{"fill-down", "-a", "-f", "x,y"}, rs)
		emit([]string{"fill-down", "--all"}, rs)
		emit([]string{"fill-down", "--all", "-a"}, rs)
		// stats1 with 1-4 random accumulators
		k := 1 + r.intn(4)
		al := ""
		used := map[string]bool{}
		for j := 0; j < k; j++ {
			a := r.pick(accs)
			if used[a] && !r.chance(1, 3) { // repeated names are legal (and must not double-count)
				continue
			}
			used[a] = true
			if al != "" {
				al += ","
			}
			al += a
		}
		emit([]string{"stats1", "-a", al, "-f", "x,y"}, rs)
		emit([]string{"stats1", "-a", al, "-f", "x", "-g", g}, rs)
		emit([]string{"stats1", "-a", "count,sum,min,max", "-f", "y,x", "-g", g}, rs)
		emit([]string{"stats1", "-a", al, "-f", r.pick([]string{"x,x", "x,y,x", "y,y"}), "-g", g}, rs)
		// merge-fields: per-record accumulation over several fields
		ms := mergeStream(r)
		keep := r.chance(1, 3)
		mf := func(args ...string) {
			argv := append([]string{"merge-fields", "-a", al}, args...)
			if keep {
				argv = append(argv, "-k")
			}
			emit(argv, ms)
		}
		mf("-f", r.pick([]string{"a_in_x,a_out_x", "a_in_x,b_in_y,nosuch", "a_in_x,a_in_x,b_out_x"}), "-o", "out")
		mf("-r", r.pick([]string{"in_,out_", "^a_", "_x$", "[ab]_in", "\"IN_\"i"}), "-o", "bar")
		mf("-c", r.pick([]string{"in_,out_", "_in,_out", "^a_,^b_", "_x$,_y$", "a"}))
		emit([]string{"step", "-a", "delta,shift,rsum,counter", "-f", "x"}, rs)
		emit([]string{"step", "-a", "counter,counter,rsum", "-f", "x,x"}, rs)
		emit([]string{"step", "-a", "shift_lag,delta", "-f", "x,y", "-g", g}, rs)
		emit([]string{"step", "-a", "rsum", "-f", "y", "-g", g}, rs)
	}
}
