package main

import (
	"os"
	"path/filepath"
	"strconv"
	"strings"
)

// runPipeline runs the whole real pipeline in-process (reader, chain and writer goroutines) on
// records given as a JSON file, with the given main flags, and parses the JSON output back.
func runPipeline(mainFlags []string, chain []string, rs []record) (string, bool) {
	text, err := writeRecords([]string{"--ojson"}, rs)
	if err != nil {
		return "err", false
	}
	fn := filepath.Join(scratch(), "pipe-in.json")
	if err := os.WriteFile(fn, []byte(text), 0o644); err != nil {
		return "err", false
	}
	argv := append([]string{"--ijson", "--ojson"}, mainFlags...)
	argv = append(argv, chain...)
	argv = append(argv, fn)
	ec, out := runMlrN(argv)
	if ec == 2 {
		return "panic", false
	}
	if ec == 3 {
		return "hang", false
	}
	if ec != 0 {
		return "err", false
	}
	return out, true
}

func init() {
	// chainb <argv> <records> => records (identical for every batch size) | BATCHDIFF ...
	ops["chainb"] = func(a []string) string {
		chain := splitFlags(a[0])
		rs := decodeRecords(a[1])
		var first string
		firstSet := false
		for _, b := range []string{"1", "2", "3", "7", "500"} {
			for _, hash := range []string{"--no-hash-records", "--hash-records"} {
				out, ok := runPipeline([]string{"--records-per-batch", b, hash, "--seed", "12345"}, chain, rs)
				if !ok {
					out = "!" + out
				}
				if !firstSet {
					first, firstSet = out, true
				} else if out != first {
					return "BATCHDIFF batch=" + b + " " + hash + " " + hx(out) + " vs " + hx(first)
				}
			}
		}
		if strings.HasPrefix(first, "!") {
			return first[1:]
		}
		back, err := readRecords([]string{"--ijson"}, first)
		if err != nil {
			return "unreadable"
		}
		return encodeRecords(back)
	}
	// thenpipe <argvA> <argvB> <records> => same | DIFF <then> <pipe>
	ops["thenpipe"] = func(a []string) string {
		A, B := splitFlags(a[0]), splitFlags(a[1])
		rs := decodeRecords(a[2])
		both := append(append(append([]string{}, A...), "then"), B...)
		o1, ok1 := runPipeline(nil, both, rs)
		mid, okm := runPipeline(nil, A, rs)
		if !ok1 || !okm {
			if !ok1 && !okm {
				return "same" // both fail alike
			}
			return "DIFF then=" + o1 + " first=" + mid
		}
		fn := filepath.Join(scratch(), "pipe-mid.json")
		if err := os.WriteFile(fn, []byte(mid), 0o644); err != nil {
			return "err"
		}
		ec, o2 := runMlrN(append(append([]string{"--ijson", "--ojson"}, B...), fn))
		if ec != 0 {
			return "DIFF then=" + hx(o1) + " pipe=exit" + strconv.Itoa(ec)
		}
		if o1 == o2 {
			return "same"
		}
		return "DIFF then=" + hx(o1) + " pipe=" + hx(o2)
	}
	// ctxs <c0,c1,...> <batch> => nr,fnr,filenum,fileindex;...;end,<NR seen by the end block>
	ops["ctxs"] = func(a []string) string {
		var files []string
		for i, c := range strings.Split(a[0], ",") {
			n, _ := strconv.Atoi(c)
			var b strings.Builder
			for j := 0; j < n; j++ {
				b.WriteString("x=" + strconv.Itoa(j) + "\n")
			}
			fn := filepath.Join(scratch(), "ctx-"+strconv.Itoa(i)+".dkvp")
			if err := os.WriteFile(fn, []byte(b.String()), 0o644); err != nil {
				return "err"
			}
			files = append(files, fn)
		}
		argv := []string{"--records-per-batch", a[1], "--idkvp", "--ojson", "put", "-q",
			`print NR.",".FNR.",".FILENUM.",".sub(sub(FILENAME, ".*ctx-", ""), "\.dkvp", ""); end{print "end,".NR}`}
		ec, out := runMlrN(append(argv, files...))
		if ec != 0 {
			return "exit" + strconv.Itoa(ec)
		}
		return strings.Join(strings.Fields(out), ";")
	}
	families["c04"] = genC04
	families["c05"] = genC05
}

var streamChains = [][]string{
	{"cat"}, {"head", "-n", "2"}, {"head", "-n", "1", "-g", "a"}, {"tac"}, {"tail", "-n", "2"}, {"cat", "-n"}, {"cat", "-n", "-g", "a"},
	{"head", "-n", "3", "then", "head", "-n", "1"}, {"head", "-n", "2", "then", "tac"}, {"tac", "then", "head", "-n", "2"},
	{"group-by", "a"}, {"count"}, {"count", "-g", "a"}, {"count-distinct", "-f", "a"}, {"uniq", "-g", "a"}, {"decimate", "-n", "2"},
	{"sort", "-f", "a"}, {"sort", "-nr", "b"}, {"cut", "-f", "a,b"}, {"regularize"}, {"unsparsify"}, {"fill-down", "-f", "a"},
	{"step", "-a", "counter,rsum", "-f", "b"}, {"stats1", "-a", "count,sum", "-f", "b", "-g", "a"}, {"count-similar", "-g", "a"},
	{"nothing"}, {"sec2gmt", "nosuch"}, {"label", "x,y"}, {"rename", "a,z"}, {"reorder", "-e", "-f", "a"},
	{"put", "$n = NR"}, {"put", "-q", "print NR; emit $*"}, {"put", "$c = $a . $b"}, {"filter", "NR % 2 == 1"},
	{"put", "-q", "@s[$a] = $b; end{emit @s, \"a\"}"}, {"tee", "/dev/null", "then", "head", "-n", "1"},
	{"head", "-n", "1", "then", "put", "end{emit {\"done\": NR}}"}, {"nest", "--ivar", ";", "-f", "b"}, {"fill-empty"},
	{"seqgen", "--stop", "5", "then", "head", "-n", "2"}, {"bootstrap"}, {"shuffle"}, {"sample", "-k", "2"},
}

// jsonStable replaces the value spellings that the JSON writer does not carry byte-for-byte (hex
// ints are written in decimal) - the transport of these ops is JSON, and its fidelity is C02's subject.
func jsonStable(rs []record) []record {
	for i := range rs {
		for j := range rs[i] {
			if rs[i][j].v == "0x1" {
				rs[i][j].v = "7"
			}
		}
	}
	return rs
}

func genC04(r *rng, thorough bool) {
	n := 40
	if thorough {
		n = 600
	}
	for i := 0; i < n; i++ {
		rs := verbStream(r, 12)
		if r.chance(1, 6) {
			rs = verbStream(r, 40)
		}
		rs = jsonStable(rs)
		for _, ch := range streamChains {
			if !thorough && r.chance(2, 3) {
				continue
			}
			chain := ch
			// randomised verbs are reproducible under --seed: the flag goes in as a main flag via the chain head
			gen("chainb " + joinFlags(chain) + " " + encodeRecords(rs))
		}
	}
}

func genC05(r *rng, thorough bool) {
	n := 30
	if thorough {
		n = 400
	}
	// the type-stable verbs of the property: those that do not consult the original record counters
	stable := [][]string{
		{"cat"}, {"tac"}, {"head", "-n", "2"}, {"head", "-n", "1", "-g", "a"}, {"tail", "-n", "2"}, {"group-by", "a"}, {"group-like"},
		{"sort", "-f", "a"}, {"sort", "-nr", "b"}, {"cut", "-f", "a,b"}, {"cut", "-x", "-f", "a"}, {"regularize"}, {"unsparsify"},
		{"count-distinct", "-f", "a"}, {"count", "-g", "a"}, {"uniq", "-g", "a,b"}, {"rename", "a,z"}, {"reorder", "-f", "b"},
		{"fill-down", "-f", "a"}, {"fill-empty"}, {"label", "p,q"}, {"sort-within-records"}, {"decimate", "-n", "2"},
		{"stats1", "-a", "count,max", "-f", "b", "-g", "a"}, {"count-similar", "-g", "a"}, {"put", "$c = $a . \"x\""}, {"filter", "is_present($a)"},
		{"cat", "-n"}, {"step", "-a", "counter", "-f", "b"}, {"sec2gmt", "nosuch"}, {"nothing"},
	}
	for i := 0; i < n; i++ {
		rs := jsonStable(verbStream(r, 10))
		for k := 0; k < 6; k++ {
			la := 1 + r.intn(2)
			lb := 1 + r.intn(2)
			var A, B []string
			for j := 0; j < la; j++ {
				if j > 0 {
					A = append(A, "then")
				}
				A = append(A, stable[r.intn(len(stable))]...)
			}
			for j := 0; j < lb; j++ {
				if j > 0 {
					B = append(B, "then")
				}
				B = append(B, stable[r.intn(len(stable))]...)
			}
			gen("thenpipe " + joinFlags(A) + " " + joinFlags(B) + " " + encodeRecords(rs))
		}
	}
	// contexts over file lists incl. empty files, against batch sizes
	for i := 0; i < n; i++ {
		k := 1 + r.intn(4)
		var cs []string
		for j := 0; j < k; j++ {
			cs = append(cs, strconv.Itoa(r.pick3()))
		}
		for _, b := range []string{"1", "2", "500"} {
			gen("ctxs " + strings.Join(cs, ",") + " " + b)
		}
	}
}

func (r *rng) pick3() int {
	switch r.intn(5) {
	case 0:
		return 0
	case 1:
		return 1
	case 2:
		return 2
	case 3:
		return 3 + r.intn(5)
	}
	return 499 + r.intn(4)
}
