package main

import (
	"strconv"
	"strings"

	"github.com/johnkerl/miller/v6/pkg/bifs"
	"github.com/johnkerl/miller/v6/pkg/mlrval"
)

func sv(h string) *mlrval.Mlrval { return mlrval.FromString(unhx(h)) }
func iv(s string) *mlrval.Mlrval {
	n, _ := strconv.ParseInt(s, 10, 64)
	return mlrval.FromInt(n)
}
func outS(v *mlrval.Mlrval) string {
	if v.IsError() {
		return "(error)"
	}
	if v.IsAbsent() {
		return "(absent)"
	}
	if v.IsBytes() {
		return "s" + hx(string(v.AcquireBytesValue()))
	}
	return "s" + hx(v.String())
}

func init() {
	// str <fn> <args...> => s<hex of result text> | (error) | (absent)
	ops["str"] = func(a []string) string {
		return guard(func() string {
			switch a[0] {
			case "strlen":
				return outS(bifs.BIF_strlen(sv(a[1])))
			case "toupper":
				return outS(bifs.BIF_toupper(sv(a[1])))
			case "tolower":
				return outS(bifs.BIF_tolower(sv(a[1])))
			case "capitalize":
				return outS(bifs.BIF_capitalize(sv(a[1])))
			case "lstrip":
				return outS(bifs.BIF_lstrip(sv(a[1])))
			case "rstrip":
				return outS(bifs.BIF_rstrip(sv(a[1])))
			case "strip":
				return outS(bifs.BIF_strip(sv(a[1])))
			case "collapse_whitespace":
				return outS(bifs.BIF_collapse_whitespace(sv(a[1])))
			case "truncate":
				return outS(bifs.BIF_truncate(sv(a[1]), iv(a[2])))
			case "leftpad":
				return outS(bifs.BIF_leftpad(sv(a[1]), iv(a[2]), sv(a[3])))
			case "rightpad":
				return outS(bifs.BIF_rightpad(sv(a[1]), iv(a[2]), sv(a[3])))
			case "substr1":
				return outS(bifs.BIF_substr_1_up(sv(a[1]), iv(a[2]), iv(a[3])))
			case "substr0":
				return outS(bifs.BIF_substr_0_up(sv(a[1]), iv(a[2]), iv(a[3])))
			case "ssub":
				return outS(bifs.BIF_ssub(sv(a[1]), sv(a[2]), sv(a[3])))
			case "gssub":
				return outS(bifs.BIF_gssub(sv(a[1]), sv(a[2]), sv(a[3])))
			case "sub":
				return outS(bifs.BIF_sub(sv(a[1]), sv(a[2]), sv(a[3])))
			case "gsub":
				return outS(bifs.BIF_gsub(sv(a[1]), sv(a[2]), sv(a[3])))
			case "regextract":
				return outS(bifs.BIF_regextract(sv(a[1]), sv(a[2])))
			case "base64_encode":
				return outS(bifs.BIF_base64_encode(sv(a[1])))
			case "base64_decode":
				return outS(bifs.BIF_base64_decode(sv(a[1])))
			case "hex_encode":
				return outS(bifs.BIF_hex_encode(sv(a[1])))
			case "hex_decode":
				return outS(bifs.BIF_hex_decode(sv(a[1])))
			case "b64rt": // decode(encode(s)) on the implementation
				return outS(bifs.BIF_base64_decode(bifs.BIF_base64_encode(sv(a[1]))))
			case "hexrt":
				return outS(bifs.BIF_hex_decode(bifs.BIF_hex_encode(sv(a[1]))))
			case "latin1rt": // utf8_to_latin1(latin1_to_utf8(s)) = s for every byte string
				return outS(bifs.BIF_utf8_to_latin1(bifs.BIF_latin1_to_utf8(sv(a[1]))))
			case "jsonrt": // json_parse(json_stringify(s)) = s
				return outS(bifs.BIF_json_parse(bifs.BIF_json_stringify_unary(sv(a[1]))))
			case "splitjoin": // joinv(splitax(s, sep), sep) = s
				return outS(bifs.BIF_joinv(bifs.BIF_splitax(sv(a[1]), sv(a[2])), sv(a[2])))
			}
			return "badfn"
		})
	}
	families["c15"] = genC15
}

var c15Strings = []string{"", "a", "hello", "Hello World", "  lead", "trail  ", "\t both \t", "a  b\t\tc\n d", "héllo", "naïve café", "€uro", "日本語テキスト", "😀 smile 😀",
	"é", "à́b", "\xff", "ab\xffcd", "\xc3", "\xe2\x82", "\xed\xa0\x80", "\xf0\x9f\x98", "\xc0\x80", "x\x00y", "ABC xyz 123", "MiXeD cAsE", "ümlaut ÜBER", "ß", "ǆ", "ﬁ",
	"a.b.c", "a,b,,c", "x=1;y=2", "(paren)", "[a-z]+", "a*b", "\\d+", "%d", "%08.3lf", "1234567890", "   ", "\t", "\n", "aaa", "abcabcabc", "aXbXc", "..."}

func genC15(r *rng, thorough bool) {
	n := 1
	if thorough {
		n = 12
	}
	ints := []string{"-7", "-3", "-2", "-1", "0", "1", "2", "3", "4", "5", "7", "10", "100"}
	for _, s := range c15Strings {
		h := hx(s)
		for _, fn := range []string{"strlen", "toupper", "tolower", "capitalize", "lstrip", "rstrip", "strip", "collapse_whitespace", "base64_encode", "hex_encode", "b64rt", "hexrt", "latin1rt", "jsonrt"} {
			gen("str " + fn + " " + h)
		}
		for _, k := range []string{"0", "1", "2", "3", "5", "8", "100"} {
			gen("str truncate " + h + " " + k)
		}
		for _, k := range ints {
			for _, pad := range []string{"0", " ", "ab", "é", "", "日本"} {
				if k[0] != '-' && (thorough || r.chance(1, 3)) {
					gen("str leftpad " + h + " " + k + " " + hx(pad))
					gen("str rightpad " + h + " " + k + " " + hx(pad))
				}
			}
			for _, k2 := range ints {
				if thorough || r.chance(1, 4) {
					gen("str substr1 " + h + " " + k + " " + k2)
					gen("str substr0 " + h + " " + k + " " + k2)
				}
			}
		}
		for _, old := range []string{"a", "b", "ab", "X", ".", "*", "", " ", "é", "abc", "aa", "\\d", "[a-z]"} {
			for _, nw := range []string{"", "Z", "<>", "aa", "\\1", "$1", "$$"} {
				if thorough || r.chance(1, 3) {
					gen("str ssub " + h + " " + hx(old) + " " + hx(nw))
					gen("str gssub " + h + " " + hx(old) + " " + hx(nw))
				}
			}
		}
		for _, re := range []string{"a", "l+", "[a-c]", "^h", "o$", "(a)(b)?", "([a-z]+) ([A-Za-z]+)", "\"L\"i", "\"H.L\"i", "b.", "[0-9]+", "x|y", "(.)\\.", "a?b", "[^a-z]", "\\.", "c*d", "(ab)+", "[[:alpha:]]+", "\\d+"} {
			for _, rep := range []string{"", "X", "<\\0>", "\\2-\\1", "[\\1]", "\\9", "$1", "$$", "${1}x", "$US", "a$0b\\1"} {
				if thorough || r.chance(1, 3) {
					gen("str sub " + h + " " + hx(re) + " " + hx(rep))
					gen("str gsub " + h + " " + hx(re) + " " + hx(rep))
				}
			}
			gen("str regextract " + h + " " + hx(re))
		}
		for _, sep := range []string{",", ".", ";", "ab", " ", "é"} {
			gen("str splitjoin " + h + " " + hx(sep))
		}
	}
	for i := 0; i < 300*n; i++ {
		ln := r.intn(12)
		var b []byte
		for j := 0; j < ln; j++ {
			b = append(b, byte(r.next()))
		}
		h := hx(string(b))
		for _, fn := range []string{"strlen", "base64_encode", "hex_encode", "b64rt", "hexrt", "latin1rt", "lstrip", "strip", "collapse_whitespace"} {
			gen("str " + fn + " " + h)
		}
		gen("str substr1 " + h + " " + strconv.Itoa(r.intn(9)-2) + " " + strconv.Itoa(r.intn(12)-2))
		gen("str truncate " + h + " " + strconv.Itoa(r.intn(8)))
		// arbitrary texts for the decoders
		gen("str base64_decode " + hx(strings.Map(func(c rune) rune { return rune("ABCDabcd0189+/=_- \n"[int(c)%19]) }, string(b))))
		gen("str hex_decode " + hx(strings.Map(func(c rune) rune { return rune("0123456789abcdefABCDEFgx "[int(c)%25]) }, string(b))))
	}
}
