// mharness: in-process differential harness (tie T2).  Generates cases from one seeded PRNG,
// calls the REAL Miller code from /repo's current tree, and prints one protocol line per case:
//
//	<op> <arg>* | <canonical impl result>
//
// All string payloads are hex ("-" = empty string), floats are IEEE bit patterns.
package main

import (
	"bufio"
	"encoding/hex"
	"fmt"
	"math"
	"os"
	"strconv"
	"strings"
	"syscall"

	"github.com/johnkerl/miller/v6/pkg/mlrval"
)

var out *bufio.Writer

// ---- PRNG: splitmix64, everything derives from VERIF_SEED
type rng struct{ s uint64 }

func (r *rng) next() uint64 {
	r.s += 0x9e3779b97f4a7c15
	z := r.s
	z = (z ^ (z >> 30)) * 0xbf58476d1ce4e5b9
	z = (z ^ (z >> 27)) * 0x94d049bb133111eb
	return z ^ (z >> 31)
}
func (r *rng) intn(n int) int           { return int(r.next() % uint64(n)) }
func (r *rng) pick(xs []string) string  { return xs[r.intn(len(xs))] }
func (r *rng) chance(num, den int) bool { return r.intn(den) < num }

func hx(s string) string {
	if s == "" {
		return "-"
	}
	return hex.EncodeToString([]byte(s))
}

func fbits(f float64) string {
	if f != f {
		return "7ff8000000000001" // canonical NaN
	}
	return fmt.Sprintf("%016x", math.Float64bits(f))
}

// canonScalar renders type + payload of a scalar mlrval (after inference).
func canonScalar(mv *mlrval.Mlrval) string {
	switch mv.Type() {
	case mlrval.MT_INT:
		i, _ := mv.GetIntValue()
		return "int:" + strconv.FormatInt(i, 10)
	case mlrval.MT_FLOAT:
		f, _ := mv.GetFloatValue()
		return "float:" + fbits(f)
	case mlrval.MT_BOOL:
		b, _ := mv.GetBoolValue()
		return "bool:" + strconv.FormatBool(b)
	case mlrval.MT_VOID:
		return "void"
	case mlrval.MT_STRING:
		return "string"
	case mlrval.MT_ABSENT:
		return "absent"
	case mlrval.MT_ERROR:
		return "error"
	default:
		return "other:" + mv.GetTypeName()
	}
}

// guard runs f and maps a Go panic to the result "panic".
func guard(f func() string) (res string) {
	defer func() {
		if r := recover(); r != nil {
			res = "panic"
		}
	}()
	return f()
}

// ---- op registry: generators print "<op> <args>"; `eval` appends " | <impl result>".
type opFunc func(args []string) string

var ops = map[string]opFunc{}
var families = map[string]func(r *rng, thorough bool){}

func gen(lhs string) { fmt.Fprintln(out, lhs) }

func unhx(s string) string {
	if s == "-" {
		return ""
	}
	b, err := hex.DecodeString(s)
	if err != nil {
		panic("bad hex in harness input: " + s)
	}
	return string(b)
}

func main() {
	out = bufio.NewWriterSize(os.Stdout, 1<<20)
	defer func() { out.Flush() }()
	defer cleanupScratch()
	if len(os.Args) >= 2 && os.Args[1] == "eval" {
		// The protocol goes to a private copy of stdout; fd 1 itself is pointed at /dev/null so that
		// Miller code that writes to stdout directly (tee > stdout, a goroutine that outlives its
		// timed-out op) cannot corrupt it.
		if fd, err := syscall.Dup(1); err == nil {
			if dn, err := os.OpenFile("/dev/null", os.O_WRONLY, 0); err == nil {
				out = bufio.NewWriterSize(os.NewFile(uintptr(fd), "protocol"), 1<<20)
				_ = syscall.Dup2(int(dn.Fd()), 1)
				os.Stdout = dn
			}
		}
		sc := bufio.NewScanner(os.Stdin)
		sc.Buffer(make([]byte, 1<<20), 1<<28)
		for sc.Scan() {
			line := sc.Text()
			if line == "" || line[0] == '#' {
				continue
			}
			// corpus lines may carry a stale " | impl" suffix: strip it
			if i := strings.Index(line, " | "); i >= 0 {
				line = line[:i]
			}
			f := strings.Split(line, " ")
			op, ok := ops[f[0]]
			if !ok {
				fmt.Fprintf(out, "%s | BADOP\n", line)
				continue
			}
			risky := f[0] == "fn" || f[0] == "recur" || f[0] == "dslr" || f[0] == "rdz" || f[0] == "chainb" || f[0] == "thenpipe" || f[0] == "mlr" || f[0] == "verbs" || f[0] == "verbsx" || f[0] == "sortv" || f[0] == "pair" || f[0] == "bystand" || f[0] == "rt" || f[0] == "rd" || f[0] == "style"
			if risky {
				out.Flush() // the op may kill the process (os.Exit inside Miller): keep everything before it
			}
			res := guard(func() string { return op(f[1:]) })
			fmt.Fprintf(out, "%s | %s\n", line, res)
		}
		return
	}
	if len(os.Args) < 5 || os.Args[1] != "gen" {
		fmt.Fprintln(os.Stderr, "usage: mharness gen <family> <quick|thorough> <seed> | mharness eval")
		os.Exit(2)
	}
	fam, tier := os.Args[2], os.Args[3]
	seed, _ := strconv.ParseUint(os.Args[4], 10, 64)
	r := &rng{s: seed*0x9e3779b97f4a7c15 + 12345}
	g, ok := families[fam]
	if !ok {
		fmt.Fprintln(os.Stderr, "unknown family", fam)
		os.Exit(2)
	}
	g(r, tier == "thorough")
}
