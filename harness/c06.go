package main

import (
	"strconv"
	"strings"

	"github.com/johnkerl/miller/v6/pkg/mlrval"
	"github.com/johnkerl/miller/v6/pkg/scan"
)

// one representative per digit class of the numeric alphabet [0-9+-.eExXoObBa-fA-F_ ]
var c06Alphabet = []string{"0", "1", "7", "8", "9", "+", "-", ".", "e", "E", "x", "X", "o", "b", "B", "a", "f", "A", "F", "_", " ", "O"}

func enumStrings(alpha []string, maxLen int, f func(string)) {
	var rec func(prefix string, n int)
	rec = func(prefix string, n int) {
		f(prefix)
		if n == 0 {
			return
		}
		for _, a := range alpha {
			rec(prefix+a, n-1)
		}
	}
	rec("", maxLen)
}

func digits(r *rng, alpha string, n int) string {
	var b strings.Builder
	for i := 0; i < n; i++ {
		b.WriteByte(alpha[r.intn(len(alpha))])
	}
	return b.String()
}

// structured numeric-looking strings concentrated at the documented boundaries
func c06Structured(r *rng) string {
	sign := r.pick([]string{"", "", "", "-", "+"})
	switch r.intn(12) {
	case 0: // decimal near 2^63 / 2^64
		base := []string{"9223372036854775807", "9223372036854775808", "9223372036854775809", "18446744073709551615", "18446744073709551616", "9223372036854775806", "99999999999999999999", "9999999999999999999", "999999999999999999"}
		return sign + r.pick(base)
	case 1: // decimal of boundary length
		n := 17 + r.intn(6)
		return sign + digits(r, "123456789", 1) + digits(r, "0123456789", n-1)
	case 2: // hex of boundary length
		n := 14 + r.intn(5)
		return sign + r.pick([]string{"0x", "0X"}) + digits(r, "0123456789abcdefABCDEF", n)
	case 3: // hex 16 digits, first digit around 7/8
		return sign + r.pick([]string{"0x", "0X"}) + r.pick([]string{"7", "8", "9", "a", "f", "A", "F", "0", "1"}) + digits(r, "0123456789abcdefABCDEF", 15)
	case 4: // binary near 63/64/65 digits
		n := 62 + r.intn(4)
		return sign + r.pick([]string{"0b", "0B"}) + digits(r, "01", n)
	case 5: // octal 0o near 21/22 digits
		n := 20 + r.intn(4)
		return sign + r.pick([]string{"0o", "0O"}) + digits(r, "01234567", n)
	case 6: // leading zeros
		return sign + "0" + digits(r, r.pick([]string{"01234567", "0123456789"}), 1+r.intn(24))
	case 7: // float forms
		ip := digits(r, "0123456789", r.intn(4))
		fp := digits(r, "0123456789", r.intn(4))
		dot := r.pick([]string{".", ".", ""})
		exp := ""
		if r.chance(1, 2) {
			exp = r.pick([]string{"e", "E"}) + r.pick([]string{"", "+", "-"}) + digits(r, "0123456789", r.intn(4))
		}
		return sign + ip + dot + fp + exp
	case 8: // float magnitudes
		return sign + r.pick([]string{"1e308", "1.7976931348623157e308", "1.7976931348623158e308", "1.7976931348623159e308", "1e309", "1e400", "5e-324", "4.9e-324", "2.4703282292062327e-324", "2.4703282292062328e-324", "1e-400", "2.2250738585072011e-308", "2.2250738585072014e-308", "9007199254740993", "9007199254740992.5", "0.1", "123456789012345678901234567890", "1e23", "8.41e21", "1e10000", "1e-10000", "0e99999", "1e99999", "1e100000"})
	case 9: // short prefixed
		return sign + r.pick([]string{"0x", "0b", "0o", "0X", "0B", "0O"}) + digits(r, "0123456789abcdefABCDEF", r.intn(4))
	case 10: // small ints
		return sign + digits(r, "0123456789", 1+r.intn(5))
	default: // mutate with a stray char
		s := sign + digits(r, "0123456789", 1+r.intn(5))
		pos := r.intn(len(s) + 1)
		return s[:pos] + r.pick(c06Alphabet) + s[pos:]
	}
}

func randBytes(r *rng, n int) string {
	b := make([]byte, n)
	for i := range b {
		b[i] = byte(r.next())
	}
	return string(b)
}


// The package-level inferrer can only be switched forward (no API to go back), so generators emit
// flags in the order N, O, A, S and `eval` switches on demand.
var c06FlagRank = map[string]int{"N": 0, "O": 1, "A": 2, "S": 3}
var c06Cur = 0

func c06SetFlag(flag string) {
	want, ok := c06FlagRank[flag]
	if !ok || want < c06Cur {
		panic("inferrer flag order")
	}
	if want != c06Cur {
		switch flag {
		case "O":
			mlrval.SetInferrerOctalAsInt()
		case "A":
			mlrval.SetInferrerIntAsFloat()
		case "S":
			mlrval.SetInferrerStringOnly()
		}
		c06Cur = want
	}
}

func init() {
	ops["parsefloat"] = func(a []string) string {
		f, err := strconv.ParseFloat(unhx(a[0]), 64)
		if err != nil {
			return "err"
		}
		return "ok:" + fbits(f)
	}
	ops["infer"] = func(a []string) string {
		c06SetFlag(a[0])
		return canonScalar(mlrval.FromDeferredType(unhx(a[1])))
	}
	ops["inferlit"] = func(a []string) string {
		c06SetFlag(a[0])
		return canonScalar(mlrval.FromInferredType(unhx(a[1])))
	}
	ops["fromstring"] = func(a []string) string { return canonScalar(mlrval.FromString(unhx(a[0]))) }
	ops["scan"] = func(a []string) string { return strconv.Itoa(int(scan.FindScanType(unhx(a[0])))) }
	families["c06"] = genC06
}

func genC06(r *rng, thorough bool) {
	// --- library reference: strconv.ParseFloat on the float alphabet (validates the Lean model)
	nref := 3000
	if thorough {
		nref = 60000
	}
	for i := 0; i < nref; i++ {
		var s string
		if i%3 == 0 {
			s = digits(r, "0123456789.+-eE", 1+r.intn(8))
		} else {
			s = c06Structured(r)
		}
		ok := true
		for _, c := range []byte(s) {
			if !strings.ContainsRune("0123456789.+-eE", rune(c)) {
				ok = false
			}
		}
		if ok {
			gen("parsefloat " + hx(s))
		}
	}
	maxLenN, maxLenOther := 4, 3
	nrand := 20000
	if thorough {
		maxLenN, maxLenOther = 5, 4
		nrand = 400000
	}
	var pool []string
	for i := 0; i < nrand; i++ {
		if i%10 == 9 {
			pool = append(pool, randBytes(r, r.intn(6)))
		} else {
			pool = append(pool, c06Structured(r))
		}
	}
	runFlag := func(flag string, maxLen int) {
		enumStrings(c06Alphabet, maxLen, func(s string) { gen("infer " + flag + " " + hx(s)) })
		for _, s := range pool {
			gen("infer " + flag + " " + hx(s))
		}
		for i, s := range pool {
			if i%4 == 0 {
				gen("inferlit " + flag + " " + hx(s))
			}
		}
		for _, s := range []string{"true", "false", "True", "", "0", "-0", "+0", "-", "+", ".", "-.", "0x", "-0x", "+0b", "0o", "1_000", "1 ", " 1", "Inf", "+Inf", "-inf", "NaN", "nan", "infinity", "0x1p3", "1e", "1e+", "0e0", "1d5", "1,5", "\xef\xbc\x90"} {
			gen("infer " + flag + " " + hx(s))
			gen("inferlit " + flag + " " + hx(s))
		}
	}
	runFlag("N", maxLenN)
	enumStrings(c06Alphabet, maxLenOther, func(s string) { gen("scan " + hx(s)) })
	for _, s := range pool {
		gen("scan " + hx(s))
		gen("fromstring " + hx(s))
	}
	runFlag("O", maxLenOther)
	runFlag("A", maxLenOther)
	runFlag("S", maxLenOther)
}
