package main

import (
	"fmt"
	"strconv"
	"time"

	"github.com/johnkerl/miller/v6/pkg/climain"
	"github.com/johnkerl/miller/v6/pkg/transformers"
	"github.com/johnkerl/miller/v6/pkg/types"
)

// runVerbs drives real transformers (built by the real command-line parser) record by record,
// one transformer after another, without reader, writer, goroutines or channels in between.
// argv = verb chain, e.g. ["head","-n","2","then","tac"].
// scrambleContexts: give the records contexts whose NR/FNR/FILENAME do NOT reflect arrival order
// (as happens downstream of any verb that drops or reorders records): verbs that do not
// document a dependence on the original record counters must behave identically.
var scrambleContexts = false

func runVerbs(argv []string, rs []record, filename string) ([]record, []string, error) {
	full := append([]string{"mlr", "--norc"}, argv...)
	_, trs, err := climain.ParseCommandLine(full)
	if err != nil {
		return nil, nil, err
	}
	ctx := types.NewContext()
	if filename != "" {
		ctx.UpdateForStartOfFile(filename)
	}
	var cur []*types.RecordAndContext
	for i, r := range rs {
		ctx.UpdateForInputRecord()
		if scrambleContexts {
			c2 := *ctx
			c2.NR = int64(1000 - 7*i)
			c2.FNR = int64((i*5)%3 + 1)
			c2.FILENUM = int64(i%2 + 1)
			c2.FILENAME = "g" + strconv.Itoa(i%2)
			cur = append(cur, types.NewRecordAndContext(toMlrmap(r), &c2))
			continue
		}
		cur = append(cur, types.NewRecordAndContext(toMlrmap(r), ctx))
	}
	cur = append(cur, types.NewEndOfStreamMarker(ctx))
	for _, tr := range trs {
		next, err := applyTransformer(tr, cur)
		if err != nil {
			return nil, nil, err
		}
		cur = next
	}
	var out []record
	var strs []string
	for _, rac := range cur {
		if rac.EndOfStream {
			continue
		}
		if rac.Record != nil {
			out = append(out, fromMlrmap(rac.Record))
		} else if rac.OutputString != "" {
			strs = append(strs, rac.OutputString)
		}
	}
	return out, strs, nil
}

func applyTransformer(tr transformers.RecordTransformer, in []*types.RecordAndContext) ([]*types.RecordAndContext, error) {
	inDone := make(chan bool, 4)
	outDone := make(chan bool, 4)
	var out []*types.RecordAndContext
	type res struct{ err error }
	ch := make(chan res, 1)
	go func() {
		defer func() {
			if r := recover(); r != nil {
				ch <- res{fmt.Errorf("panic: %v", r)}
			}
		}()
		for _, rac := range in {
			// keep the done channel drained so that a verb's blocking send cannot wedge this driver
			select {
			case <-outDone:
			default:
			}
			if rac.Record == nil && !rac.EndOfStream {
				out = append(out, rac) // print/emit strings bypass the verbs
				continue
			}
			if err := tr.Transform(rac, &out, inDone, outDone); err != nil {
				ch <- res{err}
				return
			}
		}
		ch <- res{nil}
	}()
	select {
	case r := <-ch:
		return out, r.err
	case <-time.After(20 * time.Second):
		return nil, fmt.Errorf("hang")
	}
}

func verbsResult(argv []string, rs []record) string {
	out, _, err := runVerbs(argv, rs, "f1")
	if err != nil {
		if err.Error() == "hang" {
			return "hang"
		}
		if len(err.Error()) >= 6 && err.Error()[:6] == "panic:" {
			return "panic"
		}
		return "err"
	}
	return encodeRecords(out)
}

func init() {
	// pair <argvA> <argvB> <records> => outA outB
	ops["pair"] = func(a []string) string {
		rs := decodeRecords(a[2])
		return verbsResult(splitFlags(a[0]), rs) + " " + verbsResult(splitFlags(a[1]), rs)
	}
	// verbsx: like verbs, with contexts that do not reflect arrival order
	ops["verbsx"] = func(a []string) string {
		scrambleContexts = true
		defer func() { scrambleContexts = false }()
		return verbsResult(splitFlags(a[0]), decodeRecords(a[1]))
	}
	// verbs <argv> <records> => records | err
	ops["verbs"] = func(a []string) string {
		out, strs, err := runVerbs(splitFlags(a[0]), decodeRecords(a[1]), "f1")
		if err != nil {
			if err.Error() == "hang" {
				return "hang"
			}
			if len(err.Error()) >= 6 && err.Error()[:6] == "panic:" {
				return "panic"
			}
			return "err"
		}
		s := encodeRecords(out)
		if len(strs) > 0 {
			s += " strs=" + hx(fmt.Sprint(strs))
		}
		return s
	}
}
