package main

import (
	"math"
	"strconv"
	"strings"

	"github.com/johnkerl/miller/v6/pkg/bifs"
	"github.com/johnkerl/miller/v6/pkg/mlrval"
)

// encodeVal renders a mlrval in the line protocol (see lean/MillerModel/Model/Value.lean).
func encodeVal(mv *mlrval.Mlrval) string {
	switch mv.Type() {
	case mlrval.MT_INT:
		i, _ := mv.GetIntValue()
		return "i:" + strconv.FormatInt(i, 10)
	case mlrval.MT_FLOAT:
		f, _ := mv.GetFloatValue()
		return "f:" + fbits(f)
	case mlrval.MT_BOOL:
		b, _ := mv.GetBoolValue()
		return "b:" + strconv.FormatBool(b)
	case mlrval.MT_VOID:
		return "v"
	case mlrval.MT_STRING:
		return "s:" + hx(mv.String())
	case mlrval.MT_BYTES:
		return "y"
	case mlrval.MT_ARRAY:
		return "a"
	case mlrval.MT_MAP:
		return "m"
	case mlrval.MT_FUNC:
		return "fn"
	case mlrval.MT_ERROR:
		return "e"
	case mlrval.MT_NULL:
		return "n"
	case mlrval.MT_ABSENT:
		return "x"
	}
	return "?"
}

func decodeVal(s string) *mlrval.Mlrval {
	switch {
	case strings.HasPrefix(s, "i:"):
		i, err := strconv.ParseInt(s[2:], 10, 64)
		if err != nil {
			panic("bad int " + s)
		}
		return mlrval.FromInt(i)
	case strings.HasPrefix(s, "f:"):
		u, err := strconv.ParseUint(s[2:], 16, 64)
		if err != nil {
			panic("bad float " + s)
		}
		return mlrval.FromFloat(math.Float64frombits(u))
	case s == "b:true":
		return mlrval.FromBool(true)
	case s == "b:false":
		return mlrval.FromBool(false)
	case s == "v":
		return mlrval.VOID
	case strings.HasPrefix(s, "s:"):
		return mlrval.FromString(unhx(s[2:]))
	case s == "y":
		return mlrval.FromBytes([]byte{1, 2})
	case s == "a":
		return mlrval.FromArray([]*mlrval.Mlrval{mlrval.FromInt(1), mlrval.FromInt(2)})
	case s == "m":
		m := mlrval.NewMlrmap()
		m.PutCopy("k", mlrval.FromInt(1))
		return mlrval.FromMap(m)
	case s == "fn":
		return mlrval.FromFunction(nil, "f")
	case s == "e":
		return mlrval.FromAnonymousError()
	case s == "n":
		return mlrval.NULL
	case s == "x":
		return mlrval.ABSENT
	}
	panic("bad value " + s)
}

// exported BIFs by the disposition table they dispatch through
var binaryBIFs = map[string]bifs.BinaryFunc{
	"bifs.plus_dispositions":                 bifs.BIF_plus_binary,
	"bifs.minus_dispositions":                bifs.BIF_minus_binary,
	"bifs.times_dispositions":                bifs.BIF_times,
	"bifs.divide_dispositions":               bifs.BIF_divide,
	"bifs.int_divide_dispositions":           bifs.BIF_int_divide,
	"bifs.dot_plus_dispositions":             bifs.BIF_dot_plus,
	"bifs.dotminus_dispositions":             bifs.BIF_dot_minus,
	"bifs.dottimes_dispositions":             bifs.BIF_dot_times,
	"bifs.dotdivide_dispositions":            bifs.BIF_dot_divide,
	"bifs.modulus_dispositions":              bifs.BIF_modulus,
	"bifs.min_dispositions":                  bifs.BIF_min_binary,
	"bifs.max_dispositions":                  bifs.BIF_max_binary,
	"bifs.bitwise_and_dispositions":          bifs.BIF_bitwise_and,
	"bifs.bitwise_or_dispositions":           bifs.BIF_bitwise_or,
	"bifs.bitwise_xor_dispositions":          bifs.BIF_bitwise_xor,
	"bifs.left_shift_dispositions":           bifs.BIF_left_shift,
	"bifs.signed_right_shift_dispositions":   bifs.BIF_signed_right_shift,
	"bifs.unsigned_right_shift_dispositions": bifs.BIF_unsigned_right_shift,
	"bifs.pow_dispositions":                  bifs.BIF_pow,
	"bifs.atan2_dispositions":                bifs.BIF_atan2,
	"bifs.roundm_dispositions":               bifs.BIF_roundm,
	"bifs.dot_dispositions":                  bifs.BIF_dot,
	"bifs.eq_dispositions":                   bifs.BIF_equals,
	"bifs.ne_dispositions":                   bifs.BIF_not_equals,
	"bifs.gt_dispositions":                   bifs.BIF_greater_than,
	"bifs.ge_dispositions":                   bifs.BIF_greater_than_or_equals,
	"bifs.lt_dispositions":                   bifs.BIF_less_than,
	"bifs.le_dispositions":                   bifs.BIF_less_than_or_equals,
	"bifs.cmp_dispositions":                  bifs.BIF_cmp,
}

var unaryBIFs = map[string]bifs.UnaryFunc{
	"bifs.upos_dispositions":        bifs.BIF_plus_unary,
	"bifs.uneg_dispositions":        bifs.BIF_minus_unary,
	"bifs.bitwise_not_dispositions": bifs.BIF_bitwise_not,
	"bifs.bitcount_dispositions":    bifs.BIF_bitcount,
	"bifs.depth_dispositions":       bifs.BIF_depth,
	"bifs.leafcount_dispositions":   bifs.BIF_leafcount,
	"bifs.to_int_dispositions":      bifs.BIF_int,
	"bifs.to_float_dispositions":    bifs.BIF_float,
	"bifs.to_boolean_dispositions":  bifs.BIF_boolean,
	"bifs.mudispo":                  bifs.BIF_exp,
	"bifs.imudispo":                 bifs.BIF_abs,
}
