package main

// C14: DSL programs. The op runs the REAL mlr binary (built from /repo's working tree, next to this
// harness) on a program text and JSON-lines input; the Lean side parses the same text with its own
// parser and runs the reference interpreter. The generator writes programs of the covered grammar:
// type-directed (mostly well-typed, a tenth deliberately not), with a small pool of names so that
// shadowing, cross-scope assignment, recursion and emit/loop interactions actually occur.

import (
	"bytes"
	"context"
	"fmt"
	"os"
	"os/exec"
	"path/filepath"
	"strconv"
	"strings"
	"time"
)

func mlrBin() string {
	if p := os.Getenv("MLR_BIN"); p != "" {
		return p
	}
	exe, _ := os.Executable()
	return filepath.Join(filepath.Dir(exe), "mlr")
}

func init() {
	// dsl <mode> <program hex> <input hex> => 0:<stdout hex> | err | crash | hang
	ops["dsl"] = func(a []string) string {
		var verb []string
		switch a[0] {
		case "put":
			verb = []string{"put"}
		case "putq":
			verb = []string{"put", "-q"}
		case "filter":
			verb = []string{"filter"}
		case "filterx":
			verb = []string{"filter", "-x"}
		default:
			return "BADMODE"
		}
		argv := append([]string{"--ijsonl", "--ojsonl"}, verb...)
		prog := unhx(a[1])
		if strings.HasPrefix(prog, "-") {
			prog = " " + prog // not a verb option
		}
		argv = append(argv, prog)
		ctx, cancel := context.WithTimeout(context.Background(), 20*time.Second)
		defer cancel()
		cmd := exec.CommandContext(ctx, mlrBin(), argv...)
		cmd.Stdin = strings.NewReader(unhx(a[2]))
		var so, se bytes.Buffer
		cmd.Stdout, cmd.Stderr = &so, &se
		err := cmd.Run()
		if ctx.Err() != nil {
			return "hang"
		}
		es := se.String()
		if strings.Contains(es, "panic:") || strings.Contains(es, "fatal error:") || strings.Contains(es, "goroutine ") || strings.Contains(es, "Internal coding error") {
			return "crash"
		}
		if err != nil {
			return "err"
		}
		return "0:" + hx(so.String())
	}
	families["c14"] = genC14
}

type kind int

const (
	kInt kind = iota
	kStr
	kBool
	kMap
	kArr
	kAny
)

type fsig struct {
	name   string
	params []kind
	typed  []string // "" = untyped
	ret    kind
	retTy  string
}

type g14 struct {
	r       *rng
	funcs   []fsig
	subrs   []fsig
	scopes  [][]lvar // known locals, innermost last
	inFunc  *fsig
	inLoop  int
	inBE    bool // begin/end block: no $-variables
	isFilt  bool
	budget  int
	wctr    int
	noCalls bool // inside a base case: no user-function calls (the recursion must end)
	inSubr  bool // Miller rejects `return <value>` anywhere inside a subr, function literals included
}

type lvar struct {
	name string
	k    kind
}

var fieldsInt = []string{"x", "y"}
var fieldsStr = []string{"s", "a"}
var strLits = []string{`"a"`, `"b"`, `"pan"`, `"wye"`, `""`, `"x"`, `"sum"`, `"k1"`, `"y"`, `"s"`}
var localNames = []string{"a", "b", "c", "d", "n", "m", "t"}
var oosInt = []string{"@c", "@n"}
var oosMap = []string{"@m", "@sum", "@cnt"}

func (g *g14) ch(num, den int) bool { return g.r.chance(num, den) }
func (g *g14) pick(xs ...string) string {
	return xs[g.r.intn(len(xs))]
}

// assignable: locals that statements may assign or unset (never a loop counter: the loop must end)
func (g *g14) assignable(k kind) []string {
	var out []string
	for _, n := range g.localsOf(k) {
		if n != "i" && n != "j" && !(n == "n" && g.inFunc != nil) && !strings.HasPrefix(n, "w") {
			out = append(out, n)
		}
	}
	return out
}

func (g *g14) localsOf(k kind) []string {
	var out []string
	seen := map[string]bool{}
	for i := len(g.scopes) - 1; i >= 0; i-- {
		for _, v := range g.scopes[i] {
			if seen[v.name] {
				continue
			}
			seen[v.name] = true
			if v.k == k || k == kAny {
				out = append(out, v.name)
			}
		}
	}
	return out
}

func (g *g14) intLit() string {
	switch g.r.intn(8) {
	case 0:
		return "0"
	case 1:
		return "-" + strconv.Itoa(1+g.r.intn(4))
	case 2:
		return strconv.Itoa(10 + g.r.intn(90))
	default:
		return strconv.Itoa(g.r.intn(8))
	}
}

// expr writes an expression of (mostly) the wanted kind.
func (g *g14) expr(d int, k kind) string {
	if g.ch(1, 14) { // deliberately another kind
		k = kind(g.r.intn(6))
	}
	if k == kAny {
		k = kind(g.r.intn(5))
	}
	leaf := d <= 0 || g.ch(1, 3)
	switch k {
	case kInt:
		if leaf {
			ls := g.localsOf(kInt)
			switch g.r.intn(7) {
			case 0:
				if len(ls) > 0 {
					return g.r.pick(ls)
				}
			case 1:
				if !g.inBE {
					return "$" + g.r.pick(fieldsInt)
				}
			case 2:
				return g.r.pick(oosInt)
			case 3:
				return g.pick("NR", "FNR", "NR")
			case 4:
				if !g.inBE && g.ch(1, 3) {
					return g.pick("$nosuch", "NF", "$[[[1]]]")
				}
			}
			return g.intLit()
		}
		switch g.r.intn(14) {
		case 0, 1, 2:
			return g.expr(d-1, kInt) + " " + g.pick("+", "-", "*", "+", "-", ".+", ".*") + " " + g.expr(d-1, kInt)
		case 3:
			return g.expr(d-1, kInt) + " " + g.pick("//", "%", "&", "|", "^", "<<", ">>", ">>>") + " " + g.expr(d-1, kInt)
		case 4:
			return "(" + g.expr(d-1, kInt) + ")"
		case 5:
			return "-" + g.expr(d-1, kInt)
		case 6:
			return g.pick("strlen", "length", "depth") + "(" + g.expr(d-1, g.pickKind(kStr, kArr, kMap)) + ")"
		case 7:
			return g.pick("min", "max") + "(" + g.expr(d-1, kInt) + ", " + g.expr(d-1, kInt) + g.opt(1, 3, ", "+g.expr(d-1, kAny)) + ")"
		case 8:
			return g.expr(d-1, kBool) + " ? " + g.expr(d-1, kInt) + " : " + g.expr(d-1, kInt)
		case 9:
			return g.atom(d, kArr) + "[" + g.pick("1", "2", "-1", "3", g.expr(d-1, kInt)) + "]"
		case 10:
			return g.atom(d, kMap) + "[" + g.pick(`"a"`, `"b"`, `"x"`, "1", g.expr(d-1, kStr)) + "]"
		case 11:
			if f := g.callOf(d, kInt); f != "" {
				return f
			}
			return g.expr(d-1, kInt) + " ** " + g.pick("0", "1", "2", "3")
		case 12:
			return g.expr(d-1, kAny) + " " + g.pick("??", "???") + " (" + g.expr(d-1, kInt) + ")"
		default:
			return g.expr(d-1, kInt) + " <=> " + g.expr(d-1, kInt)
		}
	case kStr:
		if leaf {
			ls := g.localsOf(kStr)
			switch g.r.intn(5) {
			case 0:
				if len(ls) > 0 {
					return g.r.pick(ls)
				}
			case 1:
				if !g.inBE {
					return "$" + g.r.pick(fieldsStr)
				}
			case 2:
				if !g.inBE && g.ch(1, 3) {
					return g.pick("$[[1]]", "$[[2]]", "FILENAME")
				}
			}
			return g.r.pick(strLits)
		}
		switch g.r.intn(8) {
		case 0, 1:
			return g.expr(d-1, kStr) + " . " + g.expr(d-1, g.pickKind(kStr, kInt, kStr, kBool))
		case 2:
			return "toupper(" + g.expr(d-1, kStr) + ")"
		case 3:
			return "typeof(" + g.expr(d-1, kAny) + ")"
		case 4:
			return g.expr(d-1, kBool) + " ? " + g.expr(d-1, kStr) + " : " + g.expr(d-1, kStr)
		case 5:
			if f := g.callOf(d, kStr); f != "" {
				return f
			}
			return "(" + g.expr(d-1, kStr) + ")"
		case 6:
			return g.expr(d-1, kAny) + " " + g.pick("??", "???") + " (" + g.expr(d-1, kStr) + ")"
		default:
			return g.atom(d, kMap) + "[" + g.pick(`"s"`, `"a"`, `"b"`) + "]"
		}
	case kBool:
		if leaf {
			ls := g.localsOf(kBool)
			if len(ls) > 0 && g.ch(1, 3) {
				return g.r.pick(ls)
			}
			return g.pick("true", "false", "true")
		}
		switch g.r.intn(10) {
		case 0, 1, 2:
			return g.expr(d-1, kInt) + " " + g.pick("<", "<=", ">", ">=", "==", "!=") + " " + g.expr(d-1, kInt)
		case 3:
			return g.expr(d-1, kStr) + " " + g.pick("<", "==", "!=", ">=") + " " + g.expr(d-1, g.pickKind(kStr, kStr, kInt))
		case 4:
			return g.expr(d-1, kBool) + " " + g.pick("&&", "||", "^^") + " " + g.expr(d-1, kBool)
		case 5:
			return "!" + g.expr(d-1, kBool)
		case 6:
			return g.pick("is_absent", "is_present", "is_empty", "is_not_empty", "is_map", "is_string", "is_int", "is_array") + "(" + g.expr(d-1, kAny) + ")"
		case 7:
			return "haskey(" + g.expr(d-1, g.pickKind(kMap, kArr)) + ", " + g.pick(`"a"`, `"x"`, "1", "-1", "0", "5") + ")"
		case 8:
			return g.pick("any", "every") + "(" + g.expr(d-1, kArr) + ", func(e) { return " + g.withLocals([]lvar{{"e", kInt}}, func() string { return g.expr(d-1, kBool) }) + " })"
		default:
			return "(" + g.expr(d-1, kBool) + ")"
		}
	case kMap:
		if leaf {
			ls := g.localsOf(kMap)
			switch g.r.intn(5) {
			case 0:
				if len(ls) > 0 {
					return g.r.pick(ls)
				}
			case 1:
				if !g.inBE {
					return "$*"
				}
			case 2:
				return g.r.pick(oosMap)
			case 3:
				return "{}"
			}
			return g.mapLit(d)
		}
		switch g.r.intn(7) {
		case 0, 1:
			return g.mapLit(d)
		case 2:
			return g.pick("mapsum", "mapdiff") + "(" + g.expr(d-1, kMap) + ", " + g.expr(d-1, kMap) + ")"
		case 3:
			return "apply(" + g.expr(d-1, kMap) + ", func(k, v) { return {" + g.withLocals([]lvar{{"k", kStr}, {"v", kInt}}, func() string { return g.expr(d-1, kStr) + ": " + g.expr(d-1, kInt) }) + "} })"
		case 4:
			return "select(" + g.expr(d-1, kMap) + ", func(k, v) { return " + g.withLocals([]lvar{{"k", kStr}, {"v", kInt}}, func() string { return g.expr(d-1, kBool) }) + " })"
		case 5:
			return g.atom(d, kMap) + "[" + g.pick(`"m"`, `"pan"`, `"a"`) + "]"
		default:
			if f := g.callOf(d, kMap); f != "" {
				return f
			}
			return "@*"
		}
	default: // kArr
		if leaf {
			ls := g.localsOf(kArr)
			if len(ls) > 0 && g.ch(1, 2) {
				return g.r.pick(ls)
			}
			return g.arrLit(d)
		}
		switch g.r.intn(8) {
		case 0, 1:
			return g.arrLit(d)
		case 2:
			return g.atom(d, kArr) + "[" + g.pick("1", "2", "-2", "0", "4") + ":" + g.pick("2", "3", "-1", "9", "1") + "]"
		case 3:
			return "append(" + g.expr(d-1, kArr) + ", " + g.expr(d-1, g.pickKind(kInt, kStr, kArr)) + ")"
		case 4:
			return "apply(" + g.expr(d-1, kArr) + ", func(e) { return " + g.withLocals([]lvar{{"e", kInt}}, func() string { return g.expr(d-1, kInt) }) + " })"
		case 5:
			return "select(" + g.expr(d-1, kArr) + ", func(e) { return " + g.withLocals([]lvar{{"e", kInt}}, func() string { return g.expr(d-1, kBool) }) + " })"
		case 6:
			return "sort(" + g.expr(d-1, kArr) + ", func(p, q) { return " + g.pick("p <=> q", "q <=> p", "p % 3 <=> q % 3") + " })"
		default:
			return g.pick("get_keys", "get_values") + "(" + g.expr(d-1, kMap) + ")"
		}
	}
}

// atom writes an expression of the wanted collection kind that Miller's grammar accepts as the base
// of an index or slice: a variable, a literal or a function call (not a parenthesised or operator expression).
func (g *g14) atom(d int, k kind) string {
	if k == kMap {
		ls := g.localsOf(kMap)
		switch g.r.intn(7) {
		case 0:
			if len(ls) > 0 {
				return g.r.pick(ls)
			}
		case 1:
			if !g.inBE {
				return "$*"
			}
		case 2:
			return g.r.pick(oosMap)
		case 3:
			return "@*"
		case 4:
			return "mapsum(" + g.expr(d-1, kMap) + ", " + g.expr(d-1, kMap) + ")"
		case 5:
			if !g.inBE {
				return "$m"
			}
		}
		return g.mapLit(d)
	}
	ls := g.localsOf(kArr)
	switch g.r.intn(5) {
	case 0:
		if len(ls) > 0 {
			return g.r.pick(ls)
		}
	case 1:
		if !g.inBE {
			return "$arr"
		}
	case 2:
		return "@arr"
	case 3:
		return "append(" + g.expr(d-1, kArr) + ", " + g.expr(d-1, kInt) + ")"
	}
	return g.arrLit(d)
}

func (g *g14) opt(num, den int, s string) string {
	if g.ch(num, den) {
		return s
	}
	return ""
}

func (g *g14) pickKind(ks ...kind) kind { return ks[g.r.intn(len(ks))] }

func (g *g14) withLocals(vs []lvar, f func() string) string {
	g.scopes = append(g.scopes, vs)
	s := f()
	g.scopes = g.scopes[:len(g.scopes)-1]
	return s
}

func (g *g14) mapLit(d int) string {
	n := g.r.intn(4)
	var parts []string
	for i := 0; i < n; i++ {
		key := g.pick(`"a"`, `"b"`, `"x"`, `"pan"`, "1", "2", `"m"`)
		var v string
		if d > 0 && g.ch(1, 4) {
			v = g.mapLit(d - 1)
		} else if d > 0 && g.ch(1, 6) {
			v = g.arrLit(d - 1)
		} else {
			v = g.expr(d-1, g.pickKind(kInt, kInt, kStr))
		}
		parts = append(parts, key+": "+v)
	}
	return "{" + strings.Join(parts, ", ") + "}"
}

func (g *g14) arrLit(d int) string {
	n := g.r.intn(5)
	var parts []string
	for i := 0; i < n; i++ {
		if d > 0 && g.ch(1, 8) {
			parts = append(parts, g.arrLit(d-1))
		} else {
			parts = append(parts, g.expr(d-1, kInt))
		}
	}
	return "[" + strings.Join(parts, ", ") + "]"
}

func (g *g14) callOf(d int, k kind) string {
	if g.noCalls {
		return ""
	}
	var cands []fsig
	for _, f := range g.funcs {
		if f.ret == k {
			cands = append(cands, f)
		}
	}
	if len(cands) == 0 {
		return ""
	}
	f := cands[g.r.intn(len(cands))]
	// inside the function itself a recursive call must move towards the base case
	var args []string
	for i, pk := range f.params {
		if g.inFunc != nil && g.inFunc.name == f.name && i == 0 {
			args = append(args, "n - 1")
		} else if i == 0 {
			args = append(args, g.pick("0", "1", "2", "3"))
		} else {
			args = append(args, g.expr(d-1, pk))
		}
	}
	return f.name + "(" + strings.Join(args, ", ") + ")"
}

func kindTy(k kind, r *rng) string {
	switch k {
	case kInt:
		return r.pick([]string{"int", "num", "var", "", ""})
	case kStr:
		return r.pick([]string{"str", "var", "", ""})
	case kBool:
		return r.pick([]string{"bool", "", "var"})
	case kMap:
		return r.pick([]string{"map", "", "var"})
	case kArr:
		return r.pick([]string{"arr", "", "var"})
	}
	return ""
}

func (g *g14) define(name string, k kind) {
	g.scopes[len(g.scopes)-1] = append(g.scopes[len(g.scopes)-1], lvar{name, k})
}

func (g *g14) lhsOf(k kind) string {
	switch k {
	case kInt:
		switch g.r.intn(5) {
		case 0, 1:
			if !g.inBE {
				return "$" + g.pick("x", "y", "z", "w")
			}
			return g.r.pick(oosInt)
		case 2:
			return g.r.pick(oosInt)
		case 3:
			return g.r.pick(oosMap) + "[" + g.keyExpr() + "]" + g.opt(1, 2, "["+g.keyExpr()+"]")
		default:
			if !g.inBE && g.ch(1, 3) {
				return g.pick("$[[[1]]]", `$*["z"]`, `$["q"]`, "$[[[7]]]")
			}
			return g.r.pick(oosInt)
		}
	case kStr:
		if !g.inBE {
			return g.pick("$s", "$t", "$a", "@last", "$[[1]]", "$[[2]]", "$[[1]]", "$[[3]]")
		}
		return "@last"
	case kMap:
		if !g.inBE && g.ch(1, 3) {
			return g.pick("$*", "$m")
		}
		return g.pick("@m", "@sum", "@cnt", "@*", "@m[1]")
	case kArr:
		if !g.inBE && g.ch(1, 2) {
			return "$arr"
		}
		return "@arr"
	}
	if g.inBE {
		return "@b"
	}
	return "$b"
}

func (g *g14) keyExpr() string {
	if g.inBE {
		return g.pick(`"a"`, `"b"`, "1", "2", `"pan"`)
	}
	return g.pick("$a", "$s", `"a"`, `"b"`, "1", "NR", "$x", "$nosuch")
}

func (g *g14) block(d int, extra []lvar) string {
	g.scopes = append(g.scopes, append([]lvar{}, extra...))
	n := 1 + g.r.intn(3)
	var ss []string
	for i := 0; i < n && g.budget > 0; i++ {
		ss = append(ss, g.stmt(d-1))
	}
	g.scopes = g.scopes[:len(g.scopes)-1]
	return "{\n" + strings.Join(ss, "\n") + "\n}"
}

func (g *g14) stmt(d int) string {
	g.budget--
	c := g.r.intn(40)
	if d <= 0 && c >= 18 && c < 30 {
		c = g.r.intn(18)
	}
	switch {
	case c < 5: // assignment to field / oosvar
		k := g.pickKind(kInt, kInt, kStr, kMap, kArr, kBool)
		return g.lhsOf(k) + " = " + g.expr(2, k) + ";"
	case c < 8: // local declaration / assignment
		k := g.pickKind(kInt, kInt, kStr, kMap, kArr, kBool)
		name := g.r.pick(localNames)
		if name == "n" && g.inFunc != nil {
			name = "t" // the recursion parameter must keep decreasing
		}
		if g.ch(1, 2) {
			ty := kindTy(k, g.r)
			if ty == "" {
				ty = "var"
			}
			// redeclaration in the same scope is a fatal error: mostly avoid it
			for _, v := range g.scopes[len(g.scopes)-1] {
				if v.name == name && !g.ch(1, 10) {
					return name + " = " + g.expr(2, v.k) + ";"
				}
			}
			s := ty + " " + name + " = " + g.expr(2, k) + ";"
			g.define(name, k)
			return s
		}
		// untyped assignment: if the name is known, mostly keep its kind (it may be typed)
		for i := len(g.scopes) - 1; i >= 0; i-- {
			for _, v := range g.scopes[i] {
				if v.name == name {
					if g.ch(9, 10) {
						return name + " = " + g.expr(2, v.k) + ";"
					}
					return name + " = " + g.expr(2, k) + ";"
				}
			}
		}
		s := name + " = " + g.expr(2, k) + ";"
		g.define(name, k)
		return s
	case c < 10: // operator-assignment
		if ls := g.assignable(kInt); len(ls) > 0 && g.ch(1, 2) {
			return g.r.pick(ls) + " " + g.pick("+=", "-=", "*=", "//=", "|=", "**=", "&=") + " " + g.expr(1, kInt) + ";"
		}
		if g.ch(1, 4) {
			return g.lhsOf(kStr) + " .= " + g.expr(1, kStr) + ";"
		}
		return g.lhsOf(kInt) + " " + g.pick("+=", "-=", "*=", "+=", "+=", "??=", "???=") + " " + g.expr(1, kInt) + ";"
	case c < 11: // indexed local assignment
		if ls := g.localsOf(kMap); len(ls) > 0 {
			return g.r.pick(ls) + "[" + g.keyExpr() + "]" + g.opt(1, 3, "["+g.keyExpr()+"]") + " = " + g.expr(1, g.pickKind(kInt, kStr, kMap)) + ";"
		}
		if ls := g.localsOf(kArr); len(ls) > 0 {
			return g.r.pick(ls) + "[" + g.pick("1", "-1", "2", "3", "4", "0") + "] = " + g.expr(1, kInt) + ";"
		}
		name := g.r.pick(localNames)
		if name == "n" && g.inFunc != nil {
			name = "t" // the recursion parameter must keep decreasing
		}
		for _, v := range g.localsOf(kAny) {
			if v == name {
				return "unset " + name + ";"
			}
		}
		g.define(name, kMap)
		return name + "[" + g.keyExpr() + "][" + g.keyExpr() + "] = " + g.expr(1, kInt) + ";"
	case c < 13: // unset
		if g.inBE {
			return "unset " + g.pick("@c", "@m", `@m["a"]`, "@sum[1]", "@*", "all", "@nosuch") + ";"
		}
		ts := []string{"$x", "$y", "$s", "$nosuch", `$*["x"]`, "@c", "@m", `@m["a"]`, "@sum[1]", "$*", "@*", `$[[1]]`}
		for _, v := range g.assignable(kAny) {
			ts = append(ts, v)
		}
		if g.ch(1, 4) {
			return "unset " + g.r.pick(ts) + ", " + g.r.pick(ts) + ";"
		}
		return "unset " + g.r.pick(ts) + ";"
	case c < 16: // print
		n := 1 + g.r.intn(2)
		var as []string
		for i := 0; i < n; i++ {
			as = append(as, g.expr(2, kAny))
		}
		return g.pick("print", "print", "print", "printn") + " " + strings.Join(as, ", ") + ";"
	case c < 18: // emit family
		return g.emit()
	case c < 21: // if chain
		s := "if (" + g.expr(2, kBool) + ") " + g.block(d, nil)
		for g.ch(1, 3) {
			s += " elif (" + g.expr(2, kBool) + ") " + g.block(d, nil)
		}
		if g.ch(1, 2) {
			s += " else " + g.block(d, nil)
		}
		return s
	case c < 23: // while / do-while with a private counter
		g.wctr++
		w := "w" + strconv.Itoa(g.wctr)
		n := strconv.Itoa(1 + g.r.intn(3))
		g.inLoop++
		body := g.block(d, nil)
		g.inLoop--
		// the counter is advanced first, so `continue` cannot loop forever
		body = "{\n" + w + " += 1;\n" + body[2:]
		if g.ch(1, 2) {
			return w + " = 0;\nwhile (" + w + " < " + n + ") " + body
		}
		return w + " = 0;\ndo " + body + " while (" + w + " < " + n + ");"
	case c < 26: // for over a collection
		g.inLoop++
		defer func() { g.inLoop-- }()
		switch g.r.intn(5) {
		case 0:
			return "for (e in " + g.expr(2, kArr) + ") " + g.block(d, []lvar{{"e", kInt}})
		case 1:
			return "for (k in " + g.expr(2, kMap) + ") " + g.block(d, []lvar{{"k", kStr}})
		case 2:
			return "for (k, v in " + g.expr(2, kMap) + ") " + g.block(d, []lvar{{"k", kStr}, {"v", kAny}})
		case 3:
			return "for (i, e in " + g.expr(2, kArr) + ") " + g.block(d, []lvar{{"i", kInt}, {"e", kInt}})
		default:
			deep := `{"a": {"x": {"p": 1, "q": 2}, "y": {"p": 3}}, "b": {"x": {"p": 4, "q": 5}}, "c": 6}`
			if g.ch(1, 2) {
				// three key levels; a break in the body must leave ALL levels
				body := g.block(d, []lvar{{"k1", kStr}, {"k2", kStr}, {"k3", kStr}, {"v", kAny}})
				if g.ch(2, 3) {
					body = "{\nprint k1 . \":\" . k2 . \":\" . k3;\nif (" + g.pick(`k3 == "q"`, `k2 == "y"`, "v > 2", `k1 == "a" && k3 == "p"`) + ") {\n" + g.pick("break", "break", "continue") + ";\n}\n" + body[2:]
				}
				return "for ((k1, k2, k3), v in " + g.pick("@sum", "@*", deep, deep) + ") " + body
			}
			body := g.block(d, []lvar{{"k1", kStr}, {"k2", kStr}, {"v", kAny}})
			if g.ch(1, 2) {
				body = "{\nif (" + g.pick(`k2 == "x"`, `k1 == "b"`, "is_map(v)") + ") {\n" + g.pick("break", "continue") + ";\n}\nprint k1 . \":\" . k2;\n" + body[2:]
			}
			return "for ((k1, k2), v in " + g.pick("@sum", "@m", "@*", deep, g.expr(2, kMap)) + ") " + body
		}
	case c < 28: // triple-for
		g.inLoop++
		defer func() { g.inLoop-- }()
		v := g.pick("i", "j")
		decl := g.pick("", "int ", "var ", "num ")
		n := strconv.Itoa(1 + g.r.intn(3))
		return "for (" + decl + v + " = 0; " + v + " < " + n + "; " + v + " += 1) " + g.block(d, []lvar{{v, kInt}})
	case c < 30: // pattern-action
		return g.expr(2, kBool) + " " + g.block(d, nil)
	case c < 32: // break / continue / return
		if g.inLoop > 0 && g.ch(2, 3) {
			return "if (" + g.expr(1, kBool) + ") {\n" + g.pick("break", "continue") + ";\n}"
		}
		if g.inFunc != nil {
			return "if (" + g.expr(1, kBool) + ") {\nreturn " + g.retExpr() + ";\n}"
		}
		return "print " + g.expr(1, kAny) + ";"
	case c < 34: // subroutine call
		if len(g.subrs) > 0 {
			f := g.subrs[g.r.intn(len(g.subrs))]
			var args []string
			for i, pk := range f.params {
				if i == 0 {
					if g.inFunc != nil && g.inFunc.name == f.name {
						args = append(args, "n - 1")
					} else {
						args = append(args, g.pick("0", "1", "2"))
					}
				} else {
					args = append(args, g.expr(1, pk))
				}
			}
			return "call " + f.name + "(" + strings.Join(args, ", ") + ");"
		}
		return "@c += 1;"
	case c < 35:
		if g.isFilt || g.inBE {
			return "@n = NR;"
		}
		return "filter " + g.expr(2, kBool) + ";"
	case c < 36:
		return g.pick("dump;", "dump @m;", "dump @sum;", "dump "+g.expr(1, kAny)+";")
	case c < 38: // function value in a local
		name := g.pick("f", "g")
		g.define(name, kAny)
		return name + " = func(u) { return " + g.withLocals([]lvar{{"u", kInt}}, func() string { return g.expr(2, kInt) }) + " };\n" +
			g.lhsOf(kInt) + " = " + name + "(" + g.expr(1, kInt) + ");"
	case c < 39: // purity: a function applied to a variable must leave the variable as it was
		v := g.pick("@arr", "@m", "$arr", "$m")
		isArr := strings.HasSuffix(v, "arr")
		if ls := g.localsOf(kArr); len(ls) > 0 && g.ch(1, 2) {
			v, isArr = g.r.pick(ls), true
		} else if ls := g.localsOf(kMap); len(ls) > 0 && g.ch(1, 2) {
			v, isArr = g.r.pick(ls), false
		}
		if g.inBE && strings.HasPrefix(v, "$") {
			v = "@" + v[1:]
		}
		pre := ""
		if g.ch(1, 2) {
			if isArr {
				pre = v + " = [3, 1, 2, " + g.intLit() + "];\n"
			} else {
				pre = v + " = {\"b\": 2, \"a\": 1, \"c\": " + g.intLit() + "};\n"
			}
		}
		var call string
		if isArr {
			call = g.pick("sort("+v+", func(p, q) { return q <=> p })", "sort("+v+", func(p, q) { return p <=> q })", "apply("+v+", func(e) { return e . \"x\" })",
				"select("+v+", func(e) { return e != 1 })", "append("+v+", 9)", "reduce("+v+", func(acc, e) { return acc . e })", "fold("+v+", func(acc, e) { return acc . e }, \"\")", v+"[1:2]")
		} else {
			call = g.pick("apply("+v+", func(k, v) { return {toupper(k): v} })", "select("+v+", func(k, v) { return k != \"a\" })", "mapsum("+v+", {\"z\": 0})",
				"mapdiff("+v+", {\"a\": 0})", "get_keys("+v+")", "get_values("+v+")")
		}
		return pre + "print " + call + ";\nprint " + v + ";"
	default: // aggregate idioms
		if g.inBE {
			return "@sum[" + g.pick(`"a"`, `"b"`) + "][" + g.pick(`"p"`, `"q"`) + "] += 1;"
		}
		return g.pick("@sum[$a][$s] += $x;", "@cnt[$a] += 1;", "@sum[$a] += $y;", "@m[NR] = $*;", "@sum[$a][$s][\"d\"] += $x;", "@last = $*;")
	}
}

func (g *g14) retExpr() string {
	if g.inFunc == nil {
		return "1"
	}
	return g.expr(2, g.inFunc.ret)
}

func (g *g14) emit() string {
	em := g.pick("@sum", "@sum", "@cnt", "@m", "@c", "@*", "@last", "@nosuch", "mapsum({\"a\": 1}, @m)", "{\"a\": {\"x\": 1, \"y\": 2}, \"b\": {\"x\": 3}}")
	if ls := g.localsOf(kMap); len(ls) > 0 && g.ch(1, 4) {
		em = g.r.pick(ls)
	}
	if !g.inBE && g.ch(1, 8) {
		em = "$*"
	}
	switch g.r.intn(8) {
	case 0:
		return "emit1 " + g.mapLit(1) + ";"
	case 1:
		return "emitf " + g.pick("@c", "@c, @n", "@n, @c", "@last") + ";"
	case 2, 3:
		return g.pick("emit", "emitp") + " " + em + ";"
	case 4, 5:
		return g.pick("emit", "emitp") + " " + em + ", " + g.pick(`"a"`, `"k"`, `"a"`) + ";"
	case 6:
		return g.pick("emit", "emitp") + " " + em + ", \"a\", " + g.pick(`"b"`, `"s"`) + ";"
	default:
		return "emit " + g.mapLit(2) + ";"
	}
}

func (g *g14) funcDef(isSubr bool, idx int) string {
	k := g.pickKind(kInt, kInt, kStr, kMap, kBool)
	np := 1 + g.r.intn(2)
	f := fsig{ret: k}
	if isSubr {
		f.name = "p" + strconv.Itoa(idx)
	} else {
		f.name = "f" + strconv.Itoa(idx)
	}
	f.params = []kind{kInt}
	f.typed = []string{g.pick("", "int", "num", "var")}
	pnames := []string{"n", "b", "c"}
	for i := 1; i < np; i++ {
		pk := g.pickKind(kInt, kStr, kMap, kArr)
		f.params = append(f.params, pk)
		f.typed = append(f.typed, kindTy(pk, g.r))
	}
	f.retTy = kindTy(k, g.r)
	var ps []string
	var vs []lvar
	for i := range f.params {
		p := pnames[i]
		if f.typed[i] != "" {
			p = f.typed[i] + " " + p
		}
		ps = append(ps, p)
		vs = append(vs, lvar{pnames[i], f.params[i]})
	}
	// register before generating the body: recursion
	if isSubr {
		g.subrs = append(g.subrs, f)
	} else {
		g.funcs = append(g.funcs, f)
	}
	saveScopes, saveBE := g.scopes, g.inBE
	g.scopes = [][]lvar{vs}
	g.inFunc = &f
	g.inBE = false
	var body []string
	g.inSubr = isSubr
	if isSubr {
		body = append(body, "if (n <= 0) {\nprint \""+f.name+" base\";\nreturn;\n}")
	} else {
		g.noCalls = true
		body = append(body, "if (n <= 0) {\nreturn "+g.expr(1, k)+";\n}")
		g.noCalls = false
	}
	if len(f.params) > 1 && g.ch(1, 2) {
		// a parameter assigned from a nested block and read after it: the assignment must reach the
		// parameter's own binding (the base frame of the call), not create a block-local
		body = append(body, "if (n > 0) {\nb = "+g.expr(1, f.params[1])+";\n}\nprint b;")
	}
	n := 1 + g.r.intn(3)
	for i := 0; i < n; i++ {
		body = append(body, g.stmt(2))
	}
	if !isSubr && g.ch(9, 10) {
		body = append(body, "return "+g.expr(2, k)+";")
	}
	if isSubr && strings.Contains(strings.Join(body, "\n"), "func(") && !g.ch(1, 12) {
		// Miller rejects `return <value>` anywhere inside a subr, function literals included
		rec := "call " + f.name + "(n - 1"
		for i := 1; i < len(f.params); i++ {
			rec += ", " + pnames[i]
		}
		body = []string{body[0], "print \"" + f.name + "\", n;", "@c += n;", rec + ");"}
	}
	g.inFunc = nil
	g.inSubr = false
	g.scopes, g.inBE = saveScopes, saveBE
	head := "func "
	if isSubr {
		head = "subr "
	}
	sig := head + f.name + "(" + strings.Join(ps, ", ") + ")"
	if !isSubr && f.retTy != "" {
		sig += ": " + f.retTy
	}
	return sig + " {\n" + strings.Join(body, "\n") + "\n}"
}

func (g *g14) program(mode string) string {
	var parts []string
	nf := g.r.intn(3)
	for i := 0; i < nf; i++ {
		parts = append(parts, g.funcDef(false, i+1))
	}
	if g.ch(1, 3) {
		parts = append(parts, g.funcDef(true, 1))
	}
	if g.ch(1, 3) {
		g.inBE = true
		g.scopes = [][]lvar{{}}
		parts = append(parts, "begin "+g.block(2, nil))
		g.inBE = false
	}
	g.scopes = [][]lvar{{}}
	n := 1 + g.r.intn(5)
	for i := 0; i < n && g.budget > 0; i++ {
		parts = append(parts, g.stmt(3))
	}
	if mode == "filter" || mode == "filterx" {
		parts = append(parts, g.expr(2, kBool)+";")
	}
	if g.ch(1, 2) {
		g.inBE = true
		g.scopes = [][]lvar{{}}
		var ss []string
		k := 1 + g.r.intn(3)
		for i := 0; i < k; i++ {
			if g.ch(1, 2) {
				ss = append(ss, g.emit())
			} else {
				ss = append(ss, g.stmt(2))
			}
		}
		parts = append(parts, "end {\n"+strings.Join(ss, "\n")+"\n}")
		g.inBE = false
	}
	return strings.Join(parts, "\n")
}

func genInput14(r *rng) string {
	n := r.intn(5)
	if r.chance(1, 10) {
		n = 0
	}
	var lines []string
	for i := 0; i < n; i++ {
		var fs []string
		if !r.chance(1, 8) {
			fs = append(fs, fmt.Sprintf(`"a": "%s"`, r.pick([]string{"pan", "wye", "pan", "eks"})))
		}
		if !r.chance(1, 8) {
			fs = append(fs, fmt.Sprintf(`"x": %d`, r.intn(10)-2))
		}
		if !r.chance(1, 6) {
			fs = append(fs, fmt.Sprintf(`"y": %d`, r.intn(100)))
		}
		if !r.chance(1, 6) {
			fs = append(fs, fmt.Sprintf(`"s": "%s"`, r.pick([]string{"p", "q", "", "r"})))
		}
		if r.chance(1, 6) {
			fs = append(fs, `"m": {"a": 1, "b": {"c": 2}}`)
		}
		if r.chance(1, 8) {
			fs = append(fs, `"arr": [5, 6, 7]`)
		}
		if r.chance(1, 7) {
			// a wide record: from 12 fields on the record keeps a key index, which every mutator must maintain
			for k := 1; k <= 12; k++ {
				fs = append(fs, fmt.Sprintf(`"f%d": %d`, k, k))
			}
		}
		lines = append(lines, "{"+strings.Join(fs, ", ")+"}")
	}
	if len(lines) == 0 {
		return ""
	}
	return strings.Join(lines, "\n") + "\n"
}

func genC14(r *rng, thorough bool) {
	n := 4000
	if thorough {
		n = 40000
	}
	for i := 0; i < n; i++ {
		mode := r.pick([]string{"put", "put", "put", "put", "put", "put", "putq", "putq", "filter", "filterx"})
		g := &g14{r: r, budget: 6 + r.intn(14), isFilt: mode == "filter" || mode == "filterx"}
		prog := g.program(mode)
		gen("dsl " + mode + " " + hx(prog) + " " + hx(genInput14(r)))
	}
}
