package main

import (
	"sort"
	"strconv"
	"strings"

	"github.com/johnkerl/miller/v6/pkg/bifs"
	"github.com/johnkerl/miller/v6/pkg/mlrval"
)

func init() {
	// readops <flag> <text> <ops> => final String()
	ops["readops"] = func(a []string) string {
		c06SetFlag(a[0])
		mv := mlrval.FromDeferredType(unhx(a[1]))
		one := mlrval.FromInt(1)
		str := mlrval.FromString("m")
		for _, o := range a[2] {
			switch o {
			case 't':
				_ = mv.Type()
			case 'n':
				_, _ = mv.GetNumericToFloatValue()
			case 'i':
				_, _ = mv.GetIntValue()
			case 's':
				_ = mv.String()
			case 'c':
				mv = mv.Copy()
			case 'o':
				_ = mv.OriginalString()
			case 'p':
				_ = bifs.BIF_plus_binary(mv, one)
			case 'm':
				_ = bifs.BIF_minus_unary(mv)
			case 'd':
				_ = bifs.BIF_dot(mv, str)
			case 'l':
				_ = bifs.BIF_less_than(mv, one)
			case 'q':
				_ = bifs.BIF_equals(mv, str)
			case 'j':
				_ = mlrval.NumericAscendingComparator(mv, one)
			case 'x':
				_ = mlrval.LexicalAscendingComparator(mv, str)
			case 'k':
				_ = mlrval.CaseFoldAscendingComparator(mv, str)
			case 'f':
				_ = mv.IsNumeric()
			case 'v':
				_ = mv.IsVoid()
			case 'y':
				_ = bifs.BIF_typeof(mv)
			case 'a':
				_ = bifs.BIF_is_notempty(mv)
			case 'b':
				_ = bifs.BIF_abs(mv)
			case 'g':
				_ = bifs.BIF_strlen(mv)
			case 'h':
				_ = bifs.BIF_is_string(mv)
			}
		}
		return hx(mv.String())
	}
	// bystand <flag> <argv> <records> <field> => sorted texts of <field> in the output, and record count
	ops["bystand"] = func(a []string) string {
		c06SetFlag(a[0])
		rs := decodeRecords(a[2])
		out, _, err := runVerbs(splitFlags(a[1]), rs, "f1")
		if err != nil {
			return "err"
		}
		f := unhx(a[3])
		var texts []string
		for _, r := range out {
			for _, fld := range r {
				if fld.k == f {
					texts = append(texts, hx(fld.v))
				}
			}
		}
		sort.Strings(texts)
		return strings.Join(append([]string{"n=" + itoa(len(out))}, texts...), ",")
	}
	families["c03"] = genC03
}

func itoa(i int) string { return strconv.Itoa(i) }

var c03Corpus = []string{"0x1F", "0XFF", "0b101", "0o17", "+5", "-0", "007", "0099", "1e5", "1E5", "1.500", "1.", ".5", "5.", "-.5e-3", "1_000", "12345678901234567890123456789012345678901", "0xffffffffffffffff", "0x8000000000000000", "9223372036854775808", "1e400", "abc", "", " 1", "1 ", "true", "Inf", "NaN", "-", "+", "\xff\xfe", "é", "1,5", "00", "-007", "+0x1F", "1e-5", "3.0", "3", "-3"}

func genC03(r *rng, thorough bool) {
	n := 40
	if thorough {
		n = 1500
	}
	opAlphabet := "tnisopmdlqjxkfvyabghc"
	mkOps := func() string {
		k := 1 + r.intn(10)
		var b strings.Builder
		for i := 0; i < k; i++ {
			b.WriteByte(opAlphabet[r.intn(len(opAlphabet))])
		}
		return b.String()
	}
	chains := [][]string{
		{"sort", "-nf", "x"}, {"sort", "-nr", "x"}, {"sort", "-f", "x"}, {"sort", "-c", "x"}, {"sort", "-t", "x"},
		{"put", "$z = $x + 1"}, {"put", "$z = $x . \"s\""}, {"put", "$z = typeof($x)"}, {"put", "$z = is_numeric($x)"},
		{"put", "$z = $x < 3 ? \"lo\" : \"hi\""}, {"put", "$z = strlen($x)"}, {"put", "$z = abs($x)"},
		{"put", "$z = fmtnum($x, \"%d\")"},
		{"step", "-a", "delta,shift,counter", "-f", "x"}, {"merge-fields", "-k", "-a", "sum,count", "-f", "x,y", "-o", "out"},
		{"count-similar", "-g", "x"}, {"fill-down", "-f", "nosuch"}, {"cat", "-n"}, {"reorder", "-f", "x"}, {"regularize"},
		{"unsparsify"}, {"sort", "-nf", "x", "then", "put", "$z = $x * 2", "then", "sort", "-f", "y"},
		{"filter", "$x >= 0 || $x < 0 || true"}, {"sec2gmt", "nosuch"}, {"fraction", "-f", "y"}, {"sort-within-records"},
		{"put", "$z = $x + $y; $w = $x . $y"}, {"top", "-a", "-f", "y", "-n", "100"},
	}
	for _, flag := range []string{"N", "O", "A", "S"} {
		for _, s := range c03Corpus {
			for i := 0; i < 3; i++ {
				gen("readops " + flag + " " + hx(s) + " " + mkOps())
			}
		}
		for i := 0; i < n; i++ {
			gen("readops " + flag + " " + hx(c06Structured(r)) + " " + mkOps())
		}
		for i := 0; i < n; i++ {
			var rs []record
			nr := 1 + r.intn(5)
			for j := 0; j < nr; j++ {
				rs = append(rs, record{{"x", r.pick(c03Corpus)}, {"y", r.pick([]string{"1", "2", "3.5", "0x10", "abc", ""})}})
			}
			ch := chains[r.intn(len(chains))]
			gen("bystand " + flag + " " + joinFlags(ch) + " " + encodeRecords(rs) + " " + hx("x"))
		}
	}
}
