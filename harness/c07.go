package main

import (
	"fmt"
	"math"
	"strconv"

	"github.com/johnkerl/miller/v6/pkg/bifs"
	"github.com/johnkerl/miller/v6/pkg/mlrval"
)

func init() {
	ops["bin7"] = func(a []string) string {
		f := binaryBIFs[a[0]]
		return encodeVal(f(decodeVal(a[1]), decodeVal(a[2])))
	}
	ops["un7"] = func(a []string) string {
		f := unaryBIFs[a[0]]
		return encodeVal(f(decodeVal(a[1])))
	}
	ops["modop"] = func(a []string) string {
		var f func(x, y, z *mlrval.Mlrval) *mlrval.Mlrval
		switch a[0] {
		case "madd":
			f = bifs.BIF_mod_add
		case "msub":
			f = bifs.BIF_mod_sub
		case "mmul":
			f = bifs.BIF_mod_mul
		case "mexp":
			f = bifs.BIF_mod_exp
		}
		return encodeVal(f(decodeVal("i:"+a[1]), decodeVal("i:"+a[2]), decodeVal("i:"+a[3])))
	}
	ops["pow"] = func(a []string) string {
		return encodeVal(bifs.BIF_pow(decodeVal("i:"+a[0]), decodeVal("i:"+a[1])))
	}
	ops["imath"] = func(a []string) string {
		var f bifs.UnaryFunc
		switch a[0] {
		case "abs":
			f = bifs.BIF_abs
		case "ceil":
			f = bifs.BIF_ceil
		case "floor":
			f = bifs.BIF_floor
		case "round":
			f = bifs.BIF_round
		case "sgn":
			f = bifs.BIF_sgn
		}
		return encodeVal(f(decodeVal("i:" + a[1])))
	}
	ops["f64"] = func(a []string) string {
		ux, _ := strconv.ParseUint(a[1], 16, 64)
		uy, _ := strconv.ParseUint(a[2], 16, 64)
		x, y := math.Float64frombits(ux), math.Float64frombits(uy)
		var r float64
		switch a[0] {
		case "add":
			r = x + y
		case "sub":
			r = x - y
		case "mul":
			r = x * y
		case "div":
			r = x / y
		case "floor":
			r = math.Floor(x)
		case "ceil":
			r = math.Ceil(x)
		case "min":
			r = math.Min(x, y)
		case "max":
			r = math.Max(x, y)
		case "ofint":
			r = float64(int64(ux))
		}
		return fbits(r)
	}
	ops["f2i"] = func(a []string) string {
		ux, _ := strconv.ParseUint(a[0], 16, 64)
		return strconv.FormatInt(int64(math.Float64frombits(ux)), 10)
	}
	families["c07"] = genC07
}

// boundary grid of int64 values
func intGrid(thorough bool) []int64 {
	set := map[int64]bool{}
	add := func(v int64) { set[v] = true }
	for _, v := range []int64{0, 1, -1, 2, -2, 3, -3, 5, 7, -7, 10, 561, 16440948372290153, 3037000499, 3037000500, -3037000500, 4294967296, 4294967295, -4294967296, 2147483648, 9007199254740992, 9007199254740993, -9007199254740993, math.MaxInt64, math.MinInt64, math.MaxInt64 - 1, math.MinInt64 + 1, math.MaxInt64 / 2, math.MaxInt64/2 + 1, math.MinInt64 / 2, math.MinInt64/2 - 1, math.MaxInt64 / 3, math.MaxInt64/3 + 1, math.MinInt64 / 3, 9223372036854774784, 9223372036854775295, 9223372036854775296} {
		add(v)
	}
	step := 4
	if thorough {
		step = 1
	}
	for k := 0; k < 64; k += step {
		p := int64(1) << uint(k)
		add(p)
		add(-p)
		add(p - 1)
		add(p + 1)
		add(-p - 1)
		add(-p + 1)
	}
	for _, k := range []uint{31, 32, 52, 53, 62, 63} {
		p := int64(1) << (k % 64)
		add(p)
		add(-p)
		add(p - 1)
		add(-p + 1)
		add(p + 1)
	}
	var out []int64
	for v := range set {
		out = append(out, v)
	}
	// deterministic order
	for i := 0; i < len(out); i++ {
		for j := i + 1; j < len(out); j++ {
			if out[j] < out[i] {
				out[i], out[j] = out[j], out[i]
			}
		}
	}
	return out
}

func floatGrid(r *rng, n int) []float64 {
	out := []float64{0, math.Copysign(0, -1), 1, -1, 0.5, -0.5, 1.5, 2.5, -2.5, 0.1, 1e308, -1e308, math.MaxFloat64, math.SmallestNonzeroFloat64, 2.2250738585072014e-308, math.Inf(1), math.Inf(-1), math.NaN(), 9223372036854775808.0, -9223372036854775808.0, 9223372036854774784.0, 4503599627370496.5, 9007199254740992, 9007199254740994, 1e19, -1e19, 3.0, 7.0, -7.0, 1e-320}
	for i := 0; i < n; i++ {
		switch i % 3 {
		case 0:
			out = append(out, math.Float64frombits(r.next()))
		case 1:
			out = append(out, float64(int64(r.next()))/float64(int64(1)<<uint(r.intn(64))))
		default:
			out = append(out, float64(int64(r.next()>>uint(r.intn(60)))))
		}
	}
	return out
}

var c07ArithTables = []string{"bifs.plus_dispositions", "bifs.minus_dispositions", "bifs.times_dispositions", "bifs.divide_dispositions", "bifs.int_divide_dispositions", "bifs.modulus_dispositions", "bifs.dot_plus_dispositions", "bifs.dotminus_dispositions", "bifs.dottimes_dispositions", "bifs.dotdivide_dispositions", "bifs.min_dispositions", "bifs.max_dispositions"}
var c07BitTables = []string{"bifs.bitwise_and_dispositions", "bifs.bitwise_or_dispositions", "bifs.bitwise_xor_dispositions", "bifs.left_shift_dispositions", "bifs.signed_right_shift_dispositions", "bifs.unsigned_right_shift_dispositions"}

func genC07(r *rng, thorough bool) {
	ig := intGrid(thorough)
	nf := 40
	nrand := 3000
	if thorough {
		nf = 200
		nrand = 100000
	}
	fg := floatGrid(r, nf)
	iv := func(v int64) string { return "i:" + strconv.FormatInt(v, 10) }
	fv := func(f float64) string { return "f:" + fbits(f) }
	// soft-float reference vs hardware
	for _, x := range fg {
		for _, y := range fg {
			for _, o := range []string{"add", "sub", "mul", "div", "min", "max"} {
				gen(fmt.Sprintf("f64 %s %s %s", o, fbits(x), fbits(y)))
			}
		}
		gen(fmt.Sprintf("f64 floor %s 0", fbits(x)))
		gen(fmt.Sprintf("f64 ceil %s 0", fbits(x)))
		gen("f2i " + fbits(x))
	}
	for _, a := range ig {
		gen(fmt.Sprintf("f64 ofint %016x 0", uint64(a)))
	}
	// int x int: full cross product of the grid
	for _, t := range append(append([]string{}, c07ArithTables...), c07BitTables...) {
		for _, a := range ig {
			for _, b := range ig {
				gen("bin7 " + t + " " + iv(a) + " " + iv(b))
			}
		}
	}
	// shifts with small and boundary counts
	for _, t := range c07BitTables[3:] {
		for _, a := range ig {
			for _, c := range []int64{0, 1, 2, 31, 32, 33, 62, 63, 64, 65, 127, 128, -1, -63, -64, math.MinInt64, math.MaxInt64} {
				gen("bin7 " + t + " " + iv(a) + " " + iv(c))
			}
		}
	}
	// mixed
	sub := ig
	if !thorough && len(sub) > 40 {
		var s2 []int64
		for i, v := range sub {
			if i%4 == 0 || v == math.MinInt64 || v == math.MaxInt64 || v == 0 {
				s2 = append(s2, v)
			}
		}
		sub = s2
	}
	for _, t := range c07ArithTables {
		for _, a := range sub {
			for _, y := range fg {
				gen("bin7 " + t + " " + iv(a) + " " + fv(y))
				gen("bin7 " + t + " " + fv(y) + " " + iv(a))
			}
		}
		for _, x := range fg {
			for _, y := range fg {
				gen("bin7 " + t + " " + fv(x) + " " + fv(y))
			}
		}
	}
	// random int64 pairs, incl. products straddling 2^63
	for i := 0; i < nrand; i++ {
		a := int64(r.next() >> uint(r.intn(64)))
		if r.chance(1, 2) {
			a = -a
		}
		var b int64
		if r.chance(1, 2) && a != 0 {
			// choose b so that a*b is within a few units of +-2^63
			q := math.MaxInt64 / a
			b = q + int64(r.intn(5)) - 2
		} else {
			b = int64(r.next() >> uint(r.intn(64)))
			if r.chance(1, 2) {
				b = -b
			}
		}
		t := c07ArithTables[r.intn(len(c07ArithTables))]
		gen("bin7 " + t + " " + iv(a) + " " + iv(b))
		gen("bin7 bifs.times_dispositions " + iv(a) + " " + iv(b))
	}
	// unary
	for _, a := range ig {
		gen("un7 bifs.uneg_dispositions " + iv(a))
		gen("un7 bifs.upos_dispositions " + iv(a))
		gen("un7 bifs.bitwise_not_dispositions " + iv(a))
		for _, f := range []string{"abs", "ceil", "floor", "round", "sgn"} {
			gen("imath " + f + " " + strconv.FormatInt(a, 10))
		}
	}
	for _, x := range fg {
		gen("un7 bifs.uneg_dispositions " + fv(x))
	}
	// modular ops
	ms := []int64{0, 1, 2, 3, 7, 10, 97, 4294967296, 4294967311, math.MaxInt64, math.MaxInt64 - 24, 4611686018427387904, -1, -7, math.MinInt64}
	for _, op := range []string{"madd", "msub", "mmul"} {
		for _, a := range sub {
			for _, b := range sub {
				for _, m := range ms {
					gen(fmt.Sprintf("modop %s %d %d %d", op, a, b, m))
				}
			}
		}
	}
	for _, a := range sub {
		for _, e := range []int64{0, 1, 2, 3, 5, 10, 63, 64, 65, 100, 1000, 4095, -1, math.MaxInt64, math.MinInt64} {
			for _, m := range ms {
				gen(fmt.Sprintf("modop mexp %d %d %d", a, e, m))
			}
		}
	}
	// pow
	for _, a := range []int64{0, 1, -1, 2, -2, 3, -3, 5, 7, 10, -10, 15, 16, 255, 256, 3037000499, 3037000500, 2097151, 2097152, math.MaxInt64, math.MinInt64} {
		for e := int64(-3); e <= 70; e++ {
			pf := math.Pow(float64(a), float64(e))
			gen(fmt.Sprintf("pow %d %d %s", a, e, fbits(pf)))
		}
	}
}
