package main

import (
	"bytes"
	stdcsv "encoding/csv"
	"encoding/json"
	"strings"
)

func hasFlag(flags []string, f string) bool {
	for _, x := range flags {
		if x == f {
			return true
		}
	}
	return false
}

func flagArg(flags []string, f string) string {
	for i, x := range flags {
		if x == f && i+1 < len(flags) {
			return flags[i+1]
		}
	}
	return ""
}

// independent standard readers on Miller's written text: "ok", "diff" or "na"
func crossCheck(wflags []string, rs []record, text string) string {
	switch {
	case hasFlag(wflags, "--ocsv") && !hasFlag(wflags, "--headerless-csv-output"):
		if len(rs) == 0 {
			return "na"
		}
		rd := stdcsv.NewReader(strings.NewReader(text))
		rd.FieldsPerRecord = -1
		switch flagArg(wflags, "--ofs") {
		case "semicolon":
			rd.Comma = ';'
		case "tab":
			rd.Comma = '\t'
		}
		rows, err := rd.ReadAll()
		if err != nil {
			return "diff"
		}
		var want [][]string
		var hdr []string
		for _, f := range rs[0] {
			hdr = append(hdr, f.k)
		}
		want = append(want, hdr)
		for _, r := range rs {
			var row []string
			for _, f := range r {
				row = append(row, f.v)
			}
			want = append(want, row)
		}
		// encoding/csv skips empty lines (a row that is one empty field): drop those from the expectation
		var w2 [][]string
		for _, row := range want {
			if len(row) == 1 && row[0] == "" && !hasFlag(wflags, "--quote-all") {
				continue
			}
			w2 = append(w2, row)
		}
		if len(rows) != len(w2) {
			return "diff"
		}
		for i := range rows {
			if len(rows[i]) != len(w2[i]) {
				return "diff"
			}
			for j := range rows[i] {
				if rows[i][j] != w2[i][j] {
					return "diff"
				}
			}
		}
		return "ok"
	case hasFlag(wflags, "--ojson") || hasFlag(wflags, "--ojsonl"):
		dec := json.NewDecoder(strings.NewReader(text))
		dec.UseNumber()
		var got []record
		// token walk preserving key order
		var walk func() (interface{}, bool)
		readRecord := func() (record, bool) {
			var rec record
			for dec.More() {
				kt, err := dec.Token()
				if err != nil {
					return nil, false
				}
				k, ok := kt.(string)
				if !ok {
					return nil, false
				}
				vt, err := dec.Token()
				if err != nil {
					return nil, false
				}
				switch v := vt.(type) {
				case string:
					rec = append(rec, field{k, v})
				case json.Number:
					rec = append(rec, field{k, v.String()})
				default:
					return nil, false
				}
			}
			if _, err := dec.Token(); err != nil { // closing }
				return nil, false
			}
			return rec, true
		}
		_ = walk
		for {
			t, err := dec.Token()
			if err != nil {
				break
			}
			if d, ok := t.(json.Delim); ok {
				if d == '{' {
					rec, ok := readRecord()
					if !ok {
						return "diff"
					}
					got = append(got, rec)
				}
			}
		}
		if len(got) != len(rs) {
			return "diff"
		}
		for i := range got {
			if len(got[i]) != len(rs[i]) {
				return "diff"
			}
			for j := range got[i] {
				if got[i][j] != rs[i][j] {
					return "diff"
				}
			}
		}
		return "ok"
	}
	return "na"
}

// styled CSV text: every cell may be quoted although it need not be; LF or CRLF line ends
func styledCSV(rs []record, style uint64, crlf bool) string {
	var b bytes.Buffer
	bit := uint(0)
	cell := func(s string) {
		must := strings.ContainsAny(s, ",\"\r\n")
		q := must || (style>>(bit%64))&1 == 1
		bit++
		if q {
			b.WriteByte('"')
			b.WriteString(strings.ReplaceAll(s, "\"", "\"\""))
			b.WriteByte('"')
		} else {
			b.WriteString(s)
		}
	}
	eol := "\n"
	if crlf {
		eol = "\r\n"
	}
	if len(rs) == 0 {
		return ""
	}
	for i, f := range rs[0] {
		if i > 0 {
			b.WriteByte(',')
		}
		cell(f.k)
	}
	b.WriteString(eol)
	for _, r := range rs {
		for i, f := range r {
			if i > 0 {
				b.WriteByte(',')
			}
			cell(f.v)
		}
		b.WriteString(eol)
	}
	return b.String()
}
