package main

import (
	"bufio"
	"bytes"
	"fmt"
	"os"
	"path/filepath"
	"strconv"
	"strings"
	"time"

	"github.com/johnkerl/miller/v6/pkg/cli"
	"github.com/johnkerl/miller/v6/pkg/climain"
	"github.com/johnkerl/miller/v6/pkg/input"
	"github.com/johnkerl/miller/v6/pkg/mlrval"
	"github.com/johnkerl/miller/v6/pkg/output"
	"github.com/johnkerl/miller/v6/pkg/stream"
	"github.com/johnkerl/miller/v6/pkg/types"
)

var scratchDir string

func scratch() string {
	if scratchDir == "" {
		base := os.Getenv("VERIF_SCRATCH")
		if base == "" {
			base = os.TempDir()
		}
		d, err := os.MkdirTemp(base, "mharness-")
		if err != nil {
			panic(err)
		}
		scratchDir = d
	}
	return scratchDir
}

func cleanupScratch() {
	if scratchDir != "" {
		os.RemoveAll(scratchDir)
	}
}

type nopCloser struct{ *bytes.Buffer }

func (nopCloser) Close() error { return nil }

// ---- records in the line protocol:  n=<k>|<rec>|<rec>…  ; rec = hexkey:hexval,hexkey:hexval…
type field struct{ k, v string }
type record []field

func encodeRecords(rs []record) string {
	var b strings.Builder
	fmt.Fprintf(&b, "n=%d", len(rs))
	for _, r := range rs {
		b.WriteByte('|')
		for i, f := range r {
			if i > 0 {
				b.WriteByte(',')
			}
			b.WriteString(hx(f.k))
			b.WriteByte(':')
			b.WriteString(hx(f.v))
		}
	}
	return b.String()
}

func decodeRecords(s string) []record {
	parts := strings.Split(s, "|")
	var rs []record
	for _, p := range parts[1:] {
		var r record
		if p != "" {
			for _, kv := range strings.Split(p, ",") {
				i := strings.IndexByte(kv, ':')
				r = append(r, field{unhx(kv[:i]), unhx(kv[i+1:])})
			}
		}
		rs = append(rs, r)
	}
	return rs
}

func toMlrmap(r record) *mlrval.Mlrmap {
	m := mlrval.NewMlrmapAsRecord()
	for _, f := range r {
		m.PutReference(f.k, mlrval.FromDeferredType(f.v))
	}
	return m
}

func fromMlrmap(m *mlrval.Mlrmap) record {
	var r record
	for pe := m.Head; pe != nil; pe = pe.Next {
		r = append(r, field{pe.Key, pe.Value.String()})
	}
	return r
}

func parseOptions(flags []string, rest ...string) (*cli.TOptions, error) {
	argv := append([]string{"mlr", "--norc"}, flags...)
	argv = append(argv, "cat")
	argv = append(argv, rest...)
	options, _, err := climain.ParseCommandLine(argv)
	return options, err
}

// writeRecords drives the real record writer selected by the flags.
func writeRecords(flags []string, rs []record) (string, error) {
	options, err := parseOptions(flags)
	if err != nil {
		return "", err
	}
	w, err := output.Create(&options.WriterOptions)
	if err != nil {
		return "", err
	}
	var buf bytes.Buffer
	bw := bufio.NewWriter(&buf)
	ctx := types.NewContext()
	for _, r := range rs {
		if err := w.Write(toMlrmap(r), ctx, bw, false); err != nil {
			return "", err
		}
	}
	if err := w.Write(nil, ctx, bw, false); err != nil {
		return "", err
	}
	bw.Flush()
	return buf.String(), nil
}

// readRecords drives the real record reader selected by the flags over the given bytes.
func readRecords(flags []string, text string) ([]record, error) {
	fn := filepath.Join(scratch(), "in")
	if err := os.WriteFile(fn, []byte(text), 0o644); err != nil {
		return nil, err
	}
	options, err := parseOptions(flags, fn)
	if err != nil {
		return nil, err
	}
	rd, err := input.Create(&options.ReaderOptions, options.ReaderOptions.RecordsPerBatch)
	if err != nil {
		return nil, err
	}
	readerChannel := make(chan []*types.RecordAndContext, 2)
	errorChannel := make(chan error, 1)
	done := make(chan bool, 1)
	go rd.Read([]string{fn}, *types.NewContext(), readerChannel, errorChannel, done)
	var rs []record
	timeout := time.After(20 * time.Second)
	for {
		select {
		case err := <-errorChannel:
			return rs, err
		case batch := <-readerChannel:
			for _, rac := range batch {
				if rac.EndOfStream {
					// an error may have been posted just before the end-of-stream marker
					select {
					case err := <-errorChannel:
						return rs, err
					default:
					}
					return rs, nil
				}
				if rac.Record != nil {
					rs = append(rs, fromMlrmap(rac.Record))
				}
			}
		case <-timeout:
			return rs, fmt.Errorf("hang")
		}
	}
}

// runMlr runs a whole mlr invocation in-process: argv (without "mlr"), one input file.
func runMlr(argv []string, stdin string) (int, string) {
	fn := filepath.Join(scratch(), "in")
	if err := os.WriteFile(fn, []byte(stdin), 0o644); err != nil {
		panic(err)
	}
	full := append([]string{"mlr", "--norc"}, argv...)
	full = append(full, fn)
	options, transformers, err := climain.ParseCommandLine(full)
	if err != nil {
		return 1, ""
	}
	var buf bytes.Buffer
	type res struct{ err error }
	ch := make(chan res, 1)
	go func() {
		defer func() {
			if r := recover(); r != nil {
				ch <- res{fmt.Errorf("panic: %v", r)}
			}
		}()
		ch <- res{stream.Stream(options.FileNames, options, transformers, nopCloser{&buf}, false)}
	}()
	select {
	case r := <-ch:
		if r.err != nil {
			if strings.HasPrefix(r.err.Error(), "panic:") {
				return 2, buf.String()
			}
			return 1, buf.String()
		}
		return 0, buf.String()
	case <-time.After(20 * time.Second):
		return 3, buf.String()
	}
}

// runMlrN runs an invocation that reads no input file (e.g. mlr -n put 'end{...}').
func runMlrN(argv []string) (int, string) {
	full := append([]string{"mlr", "--norc"}, argv...)
	options, transformers, err := climain.ParseCommandLine(full)
	if err != nil {
		return 1, ""
	}
	var buf bytes.Buffer
	ch := make(chan error, 1)
	go func() {
		defer func() {
			if r := recover(); r != nil {
				ch <- fmt.Errorf("panic: %v", r)
			}
		}()
		ch <- stream.Stream(options.FileNames, options, transformers, nopCloser{&buf}, false)
	}()
	select {
	case err := <-ch:
		if err != nil {
			if strings.HasPrefix(err.Error(), "panic:") {
				return 2, buf.String()
			}
			return 1, buf.String()
		}
		return 0, buf.String()
	case <-time.After(20 * time.Second):
		return 3, buf.String()
	}
}

func splitFlags(s string) []string {
	if s == "-" || s == "" {
		return nil
	}
	var out []string
	for _, h := range strings.Split(s, ",") {
		out = append(out, unhx(h))
	}
	return out
}

func joinFlags(flags []string) string {
	if len(flags) == 0 {
		return "-"
	}
	var hs []string
	for _, f := range flags {
		hs = append(hs, hx(f))
	}
	return strings.Join(hs, ",")
}

func init() {
	// rt <wflags> <rflags> <records>  =>  <written text hex> <records read back>   (or werr / rerr)
	ops["rt"] = func(a []string) string {
		rs := decodeRecords(a[2])
		text, err := writeRecords(splitFlags(a[0]), rs)
		if err != nil {
			return "werr"
		}
		back, err := readRecords(splitFlags(a[1]), text)
		if err != nil {
			return hx(text) + " rerr"
		}
		return hx(text) + " " + encodeRecords(back) + " x=" + crossCheck(splitFlags(a[0]), rs, text)
	}
	// style <stylebits> <crlf 0|1> <records> => <text> <records read by --icsv>
	ops["style"] = func(a []string) string {
		rs := decodeRecords(a[2])
		st, _ := strconv.ParseUint(a[0], 10, 64)
		text := styledCSV(rs, st, a[1] == "1")
		back, err := readRecords([]string{"--icsv"}, text)
		if err != nil {
			return hx(text) + " rerr"
		}
		return hx(text) + " " + encodeRecords(back)
	}
	// rd <rflags> <text hex> => records or rerr
	ops["rd"] = func(a []string) string {
		back, err := readRecords(splitFlags(a[0]), unhx(a[1]))
		if err != nil {
			return "rerr"
		}
		return encodeRecords(back)
	}
	// mlr <argv> <stdin hex> => <exit> <stdout hex>
	ops["mlr"] = func(a []string) string {
		ec, out := runMlr(splitFlags(a[0]), unhx(a[1]))
		return fmt.Sprintf("%d %s", ec, hx(out))
	}
}
