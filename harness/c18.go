package main

import (
	"reflect"
	"sort"
	"strconv"
	"strings"

	"github.com/johnkerl/miller/v6/pkg/dsl/cst"
)

func init() {
	// fn <program hex> => ok | err | panic | hang   (one DSL program through the real parser + interpreter, no input)
	ops["fn"] = func(a []string) string {
		ec, _ := runMlrN([]string{"-n", "put", unhx(a[0])})
		switch ec {
		case 0:
			return "ok"
		case 2:
			return "panic"
		case 3:
			return "hang"
		}
		return "err"
	}
	// rdz <flags> <bytes hex> => ok:<n records> | err | panic | hang   (arbitrary bytes through a real reader)
	ops["rdz"] = func(a []string) string {
		res := guard(func() string {
			rs, err := readRecords(splitFlags(a[0]), unhx(a[1]))
			if err != nil {
				if err.Error() == "hang" {
					return "hang"
				}
				return "err"
			}
			return "ok:" + strconv.Itoa(len(rs))
		})
		return res
	}
	// dslr <program hex> <records> => ok | err | panic | hang  (program run over records through the whole pipeline)
	ops["dslr"] = func(a []string) string {
		prog := unhx(a[0])
		out, ok := runPipeline(nil, []string{"put", prog}, decodeRecords(a[1]))
		if ok {
			return "ok"
		}
		// a mutated program whose OWN text can loop for ever (while / do-while / a C-style for, e.g.
		// `while (true) {brea\xffk}` where the body became a bare local) and does not end within the
		// timer is the program's non-termination, not Miller's: reported as "loops", which the
		// property allows (the recursion case is the separate `recur` op)
		if out == "hang" && (strings.Contains(prog, "while") || (strings.Contains(prog, "for") && strings.Contains(prog, ";"))) {
			return "loops"
		}
		return out
	}
	// recur <program hex> <records> => ok | err | panic | hang: as dslr but in the REAL binary as a
	// child process, so that a run that never ends can be killed (in-process it would keep eating memory)
	ops["recur"] = func(a []string) string {
		r := ops["dsl"]([]string{"put", a[0], hx("{\"x\": 3}\n")})
		switch {
		case r == "crash":
			return "panic"
		case r == "hang" || r == "err":
			return r
		}
		return "ok"
	}
	families["c18fn"] = genC18fn
	families["c18rd"] = genC18rd
	families["c18dsl"] = genC18dsl
}

// argument expressions, one or more per operand kind (the property's list) plus boundary numbers and awkward strings
var kindArgs = []string{
	"1", "2.5", "true", `""`, `"abc"`, "[1,2]", `{"a":1}`, `("a" + 1)`, `json_parse("null")`, "@nosuch",
	"func(a) {return a}", "func(a,b) {return a . b}",
	"9223372036854775807", "-9223372036854775807 - 1", "0", "-1", "1e308", "-0.0", "0x7fffffffffffffff", "1.5e-320",
	`"%d"`, `"%s%s%s"`, `"%"`, `"("`, `"[a-"`, `"\."`, `"%Y-%m-%dT%H:%M:%SZ"`, `"héllo"`, `"\xff\xfe"`, `"1,2;3"`, `"-5"`, "[]", "{}", `[1,[2,[3]]]`,
	`"(a)(b)(c)(d)(e)(f)(g)(h)(i)(j)(k)"`, `"abcdefghijkl"`, `("\"" . "i")`, `("/" . "i")`, `("\"" . "\"")`, `("/" . "/")`, `"\"i"`, `("\"" . "\"i")`,
	`{"a":{"b":[1,{"c":2}]}}`, `[1, @nosuch, ("a" + 1)]`, `{"a": ("a" + 1)}`, "1000000", "-1000000", `"Asia/Istanbul"`, `"nosuch/zone"`,
}

var boundaryInts = []string{"0", "1", "-1", "2", "7", "9223372036854775807", "-9223372036854775807 - 1", "4611686018427387904", "1099511627776"}

func fnArities(name string) []int {
	info := cst.BuiltinFunctionManagerInstance.LookUp(name)
	if info == nil {
		return nil
	}
	v := reflect.ValueOf(info).Elem()
	nonNil := func(f string) bool {
		fv := v.FieldByName(f)
		return fv.IsValid() && !fv.IsNil()
	}
	set := map[int]bool{}
	if nonNil("zaryFunc") || nonNil("zaryFuncWithState") {
		set[0] = true
	}
	if nonNil("unaryFunc") || nonNil("unaryFuncWithContext") {
		set[1] = true
	}
	if nonNil("binaryFunc") || nonNil("regexCaptureBinaryFunc") || nonNil("binaryFuncWithState") {
		set[2] = true
	}
	if nonNil("ternaryFunc") || nonNil("ternaryFuncWithState") {
		set[3] = true
	}
	if nonNil("variadicFunc") || nonNil("variadicFuncWithState") {
		lo := int(v.FieldByName("minimumVariadicArity").Int())
		hi := int(v.FieldByName("maximumVariadicArity").Int())
		if hi == 0 || hi > 3 {
			hi = 3
		}
		for k := lo; k <= hi; k++ {
			set[k] = true
		}
		if lo == 0 {
			set[0] = true
		}
	}
	var out []int
	for k := range set {
		out = append(out, k)
	}
	sort.Ints(out)
	return out
}

func genC18fn(r *rng, thorough bool) {
	names := cst.BuiltinFunctionManagerInstance.GetBuiltinFunctionNames()
	core := 12 // the property's kinds first
	for _, name := range names {
		if !(name[0] >= 'a' && name[0] <= 'z') {
			continue // operators: swept cell by cell in C08
		}
		if name == "system" || name == "exec" || name == "os_type" || name == "hostname" || name == "version" {
			continue // shell-outs / environment
		}
		for _, ar := range fnArities(name) {
			call := func(args []string) {
				gen("fn " + hx("end{x = "+name+"("+strings.Join(args, ", ")+"); y = typeof(x); z = asserting_not_null(y)}"))
			}
			switch ar {
			case 0:
				call(nil)
			case 1:
				for _, a := range kindArgs {
					call([]string{a})
				}
			case 2:
				for i, a := range kindArgs {
					for j, b := range kindArgs {
						if i < core || j < core || thorough || r.chance(1, 6) {
							call([]string{a, b})
						}
					}
				}
			case 3:
				for i, a := range kindArgs {
					for j, b := range kindArgs {
						for k, c := range kindArgs {
							in := 0
							if i < core {
								in++
							}
							if j < core {
								in++
							}
							if k < core {
								in++
							}
							// all tuples of the core kinds; a sample of the rest
							if in == 3 && (thorough || (i+j+k)%3 == 0 || r.chance(1, 4)) || in == 2 && thorough && r.chance(1, 3) || r.chance(1, 400) {
								call([]string{a, b, c})
							}
						}
					}
				}
				// every triple of boundary integers (overflowing products, zero and negative moduli, extreme lengths and indices)
				for _, a := range boundaryInts {
					for _, b := range boundaryInts {
						for _, c := range boundaryInts {
							call([]string{a, b, c})
						}
					}
				}
			}
		}
	}
}

var validDocs = map[string][]string{
	"--icsv":      {"a,b,c\n1,2,3\n4,5,6\n", "a,b\n\"x,y\",\"he said \"\"hi\"\"\"\n\"multi\nline\",z\n", "\xef\xbb\xbfa,b\n1,2\n", "a\n\n1\n"},
	"--icsvlite":  {"a,b\n1,2\n\nc\n3\n", "a,b,c\n1,2,3\n"},
	"--itsv":      {"a\tb\n1\t2\n", "a\tb\nx\\ty\tz\\n\n"},
	"--ijson":     {"{\"a\":1,\"b\":{\"c\":[1,2,{\"d\":null}]}}\n{\"a\":\"x\"}\n", "[{\"a\":1},{\"a\":2.5e3},{\"a\":true}]", "{\"a\":\"\\u00e9\\n\"}"},
	"--ijsonl":    {"{\"a\":1}\n{\"b\":[1,2]}\n"},
	"--idkvp":     {"a=1,b=2\nc=3\n", "a=1,b=,c\n=5\n"},
	"--inidx":     {"a b  c\nd e\n"},
	"--ixtab":     {"a 1\nb 2\n\na 3\nb 4\n"},
	"--ipprint":   {"a   b\n1   2\n33  4\n\nc\n5\n", "+---+---+\n| a | b |\n+---+---+\n| 1 | 2 |\n+---+---+\n"},
	"--imarkdown": {"| a | b |\n| --- | --- |\n| 1 | 2 |\n"},
	"--iusv":      {"a\xe2\x90\x9fb\xe2\x90\x9e1\xe2\x90\x9f2\xe2\x90\x9e"},
	"--iyaml":     {"- a: 1\n  b: [1, 2]\n- a: x\n", "a: 1\nb:\n  c: 2\n"},
	"--idkvpx":    {"a=1,b=\"x,y\"\n"},
}

var readerExtras = [][]string{
	nil, {"--allow-ragged-csv-input"}, {"--implicit-csv-header"}, {"--lazy-quotes"}, {"--ifs", ";"}, {"--ifs", "semicolon", "--ips", ":"},
	{"--irs", ";"}, {"--repifs"}, {"--records-per-batch", "1"}, {"-S"}, {"-O"}, {"--ifs", "ab"}, {"--quote-all"}, {"--csv-trim-leading-space"},
	{"--headerless-csv-input"}, {"--ifs-regex", "[,;]"}, {"--ips-regex", "[=:]"}, {"--skip-comments"}, {"--pass-comments-with", "%"},
}

func mutateBytes(r *rng, s string) string {
	b := []byte(s)
	specials := []string{"\"", "\"\"", ",", "\n", "\r\n", "\r", "\t", "\\", "{", "}", "[", "]", ":", "=", "\x00", "\xff", "\xc3", "\xe2\x90", "#", " ", "|", "-", "\xef\xbb\xbf", "1e999999", "999999999999999999999999", "\\u12", "\\uD800", "null", "tru"}
	for k := 1 + r.intn(4); k > 0; k-- {
		if len(b) == 0 {
			b = []byte(r.pick(specials))
			continue
		}
		i := r.intn(len(b))
		switch r.intn(7) {
		case 0: // truncate
			b = b[:i]
		case 1: // delete a span
			j := i + r.intn(4)
			if j > len(b) {
				j = len(b)
			}
			b = append(b[:i:i], b[j:]...)
		case 2: // insert a special
			sp := r.pick(specials)
			b = append(b[:i:i], append([]byte(sp), b[i:]...)...)
		case 3: // flip a byte
			b[i] ^= byte(1 << uint(r.intn(8)))
		case 4: // duplicate a span
			j := i + r.intn(8)
			if j > len(b) {
				j = len(b)
			}
			b = append(b[:j:j], append(append([]byte{}, b[i:j]...), b[j:]...)...)
		case 5: // huge field
			b = append(b[:i:i], append([]byte(strings.Repeat(r.pick([]string{"x", "\"", ",", "{", "[", "9"}), 3000+r.intn(3000))), b[i:]...)...)
		case 6: // replace with a special
			sp := r.pick(specials)
			b = append(b[:i:i], append([]byte(sp), b[i+1:]...)...)
		}
	}
	return string(b)
}

func genC18rd(r *rng, thorough bool) {
	n := 40
	if thorough {
		n = 700
	}
	var fmts []string
	for f := range validDocs {
		fmts = append(fmts, f)
	}
	sort.Strings(fmts)
	for _, f := range fmts {
		for _, doc := range validDocs[f] {
			for _, ex := range readerExtras {
				flags := append([]string{f}, ex...)
				gen("rdz " + joinFlags(flags) + " " + hx(doc))
				gen("rdz " + joinFlags(flags) + " " + hx(""))
			}
			for i := 0; i < n; i++ {
				flags := append([]string{f}, readerExtras[r.intn(len(readerExtras))]...)
				gen("rdz " + joinFlags(flags) + " " + hx(mutateBytes(r, doc)))
			}
		}
	}
}

var validPrograms = []string{
	// more capture groups than the ten slots \0..\9, matching and not; captures used afterwards
	`if ("abcdefghijkl" =~ "(a)(b)(c)(d)(e)(f)(g)(h)(i)(j)(k)(l)") {$y = "\9:\1"} $z = sub($a, "(p)(a)(n)()()()()()()()()", "<\9\1>")`,
	`$y = "abcdefghij" =~ "(a)(b)(c)(d)(e)(f)(g)(h)(i)(j)"; $z = "\0"; $w = "xyz" !=~ "(x)(y)(z)()()()()()()()()"; $v = matchx("abcdefghijk", "(a)(b)(c)(d)(e)(f)(g)(h)(i)(j)(k)")`,
	`$y = any([1], func(e) { return "abcdefghijk" =~ "(((((((((((a)))))))))))" }); $z = "\9" . strmatchx("abcdefghijk", "(a)(b)(c)(d)(e)(f)(g)(h)(i)(j)(k)")["captures"][11]`,
	`$z = $x + 1`, `if ($x > 1) {$y = "a"} elif (true) {$y = "b"} else {unset $x}`, `for (k, v in $*) {$[k."_new"] = v}`,
	`func f(str s, int n): str { return s . n } $y = f("a", 1)`, `@sum[$a][$b] += $x; end {emit @sum, "a", "b"}`,
	`$* = mapsum({"new": NR}, $*)`, `while (true) {break}`, `do {$i = 1} while (false)`, `$y = $x =~ "^(a)(b)?" ? "\1:\2" : "no"`,
	`begin {@c = 0} @c += 1; $c = @c; end {dump; emit @c}`, `tee > $a.".tmp", $*`, `print | "cat", $x`, `emit1 {"a": 1}`,
	`$y = splitax("a,b,c", ",")[2:3]`, `$y = sort([5,2,3], func(a,b) {return b <=> a})`, `unset $*[1]`, `$[[1]] = "newname"; $[[[2]]] = "newvalue"`,
	`map m = {}; m[1][2] = 3; $y = m[1][2]`, `$y = fold([1,2,3], func(acc,e) {return acc + e}, 0)`, `filter $x > 1`, `$y = strptime("2023-01-01", "%Y-%m-%d")`,
	`subr p(str s) { print s } call p("x")`, `$y = format_values`, `ENV["X"] = "y"; $e = ENV["X"]`, `$nr = NR . ":" . FNR . ":" . FILENAME . ":" . M_PI`,
	`for ((k1, k2), v in @sum) { print k1 }`, `for (int i = 0; i < 3; i += 1) { $[string(i)] = i }`, `$y = $x ?? "d" ??? "e"`, `$y = 1 <=> 2; $z = "a" . 1 .+ 2`,
	`emit (@a, @b), "x"`, `emitp @sum, "a"`, `emitf @c`, `$y = asserting_int($x)`, `$y = $x[1:2]`, `$y = -$x ** 2 // 3 % 4 ^ 5 | 6 & 7 >>> 1`,
}

func genC18dsl(r *rng, thorough bool) {
	n := 30
	if thorough {
		n = 500
	}
	rs := []record{{{"a", "pan"}, {"b", "wye"}, {"x", "3"}}, {{"a", "eks"}, {"x", ""}}, {{"x", "abc"}, {"a", "1,2"}}}
	enc := encodeRecords(rs)
	toks := []string{"$", "@", "{", "}", "(", ")", "[", "]", ";", ",", ".", "=", "==", "+", "-", "*", "/", "//", "**", "?", ":", "\"", "\\", "func", "if", "else", "elif", "for", "while", "do", "in", "return", "begin", "end", "emit", "emitp", "tee", ">", ">>", "|", "unset", "filter", "call", "subr", "var", "map", "int", "str", "$*", "@*", "M_PI", "NR", "1", "0x", "1e", "1.", ".5", "\"%\"", "[[", "]]", "[[[", "]]]", "&&", "||", "^^", "!", "~", "=~", "!=~", "<=>", "??", "???", ".+", "\n", "#", "absent", "true", "ENV", "IPS", "all", "\x00", "\xff", "é"}
	for _, p := range validPrograms {
		gen("dslr " + hx(p) + " " + enc)
		for i := 0; i < n; i++ {
			// token-level mutation: split on spaces and symbol boundaries crudely, then delete/duplicate/swap/insert
			parts := strings.Fields(p)
			for k := 1 + r.intn(3); k > 0 && len(parts) > 0; k-- {
				i := r.intn(len(parts))
				switch r.intn(5) {
				case 0:
					parts = append(parts[:i:i], parts[i+1:]...)
				case 1:
					parts = append(parts[:i:i], append([]string{parts[i]}, parts[i:]...)...)
				case 2:
					j := r.intn(len(parts))
					parts[i], parts[j] = parts[j], parts[i]
				case 3:
					parts = append(parts[:i:i], append([]string{r.pick(toks)}, parts[i:]...)...)
				case 4:
					w := parts[i]
					if len(w) > 1 {
						c := r.intn(len(w))
						parts[i] = w[:c] + r.pick(toks) + w[c:]
					}
				}
			}
			gen("dslr " + hx(strings.Join(parts, " ")) + " " + enc)
		}
	}
	// deep nesting and long inputs
	gen("dslr " + hx("$y = "+strings.Repeat("(", 3000)+"1"+strings.Repeat(")", 3000)) + " " + enc)
	gen("dslr " + hx("$y = "+strings.Repeat("[", 600)+"1"+strings.Repeat("]", 600)) + " " + enc)
	gen("dslr " + hx("$y = "+strings.Repeat("-", 5000)+"1") + " " + enc)
	gen("recur " + hx("func f(n) { return f(n+1) } $y = f(1)") + " " + enc)
	gen("dslr " + hx(strings.Repeat("$y = 1;", 5000)) + " " + enc)
}
