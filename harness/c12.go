package main

func init() { families["c12"] = genC12 }

func genC12(r *rng, thorough bool) {
	n := 150
	if thorough {
		n = 4000
	}
	fl := []string{"a", "b", "a,b", "b,a", "x", "nosuch", "a,nosuch", "c,a,b", "a,a", "y,x,c,b,a", "b,b,a"}
	emit := func(argv []string, rs []record) {
		gen("verbs " + joinFlags(argv) + " " + encodeRecords(rs))
		gen("verbsx " + joinFlags(argv) + " " + encodeRecords(rs))
	}
	for i := 0; i < n; i++ {
		rs := verbStream(r, 8)
		f := r.pick(fl)
		emit([]string{"cut", "-f", f}, rs)
		emit([]string{"cut", "-o", "-f", f}, rs)
		emit([]string{"cut", "-x", "-f", f}, rs)
		emit([]string{"reorder", "-f", f}, rs)
		emit([]string{"reorder", "-e", "-f", f}, rs)
		rn := r.pick([]string{"a,b", "a,a", "a,z", "a,b,b,a", "a,b,b,c", "a,c,b,a", "x,y,a,b", "nosuch,a", "a,b,a,c", "b,a,c,a", "a,b,c,b", "y,x,x,y"})
		emit([]string{"rename", rn}, rs)
		emit([]string{"rename", "a,z", "then", "rename", "z,a"}, rs)
		emit([]string{"label", r.pick([]string{"d", "d,e", "d,x,f", "a", "b,a", "p,q,r,s,t,u", "x", "c,b,a"})}, rs)
		emit([]string{"regularize"}, rs)
		emit([]string{"sort-within-records"}, rs)
		emit([]string{"sort-within-records", "-r"}, rs)
		emit([]string{"unsparsify"}, rs)
		emit([]string{"unsparsify", "--fill-with", "X"}, rs)
		emit([]string{"unsparsify", "-f", f}, rs)
		emit([]string{"unsparsify", "--fill-with", "X", "-f", "a,b", "-f", "z"}, rs)
		emit([]string{"sparsify"}, rs)
		emit([]string{"sparsify", "-s", "1"}, rs)
		emit([]string{"sparsify", "-f", f}, rs)
		emit([]string{"fill-empty"}, rs)
		emit([]string{"fill-empty", "-v", "X"}, rs)
		emit([]string{"template", "-f", f}, rs)
		emit([]string{"template", "-f", f, "--fill-with", "X"}, rs)
		emit([]string{"altkv"}, rs)
		emit([]string{"unsparsify", "then", "regularize", "then", "sort-within-records"}, rs)
	}
}
