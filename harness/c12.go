package main

import "strconv"

func init() { families["c12"] = genC12 }

func genC12(r *rng, thorough bool) {
	n := 150
	if thorough {
		n = 4000
	}
	fl := []string{"a", "b", "a,b", "b,a", "x", "nosuch", "a,nosuch", "c,a,b", "a,a", "y,x,c,b,a", "b,b,a"}
	// pad: the same records with twelve bystander fields appended - from 12 fields on a record keeps a key
	// index, which every verb that moves, renames or removes fields has to maintain
	pad := func(rs []record) []record {
		var out []record
		for _, rec := range rs {
			q := append(record{}, rec...)
			for k := 1; k <= 12; k++ {
				q = append(q, field{"pad" + strconv.Itoa(k), strconv.Itoa(k)})
			}
			out = append(out, q)
		}
		return out
	}
	emit := func(argv []string, rs []record) {
		gen("verbs " + joinFlags(argv) + " " + encodeRecords(rs))
		gen("verbsx " + joinFlags(argv) + " " + encodeRecords(rs))
		if r.chance(1, 3) {
			// ... followed, in the same chain, by a stage that finds the fields by name
			w := pad(rs)
			gen("verbs " + joinFlags(argv) + " " + encodeRecords(w))
			if argv[0] == "sort-within-records" {
				return // its -r flag is parsed differently by the model's and the real chain parser when a `then` follows
			}
			gen("verbs " + joinFlags(append(append([]string{}, argv...), "then", "cut", "-x", "-f", "a,pad3")) + " " + encodeRecords(w))
			gen("verbs " + joinFlags(append(append([]string{}, argv...), "then", "cut", "-o", "-f", "pad12,b,a,x")) + " " + encodeRecords(w))
		}
	}
	for i := 0; i < n; i++ {
		rs := verbStream(r, 8)
		f := r.pick(fl)
		// regex modes; wide records interleave the regex groups beyond the insertion-sort threshold of pdqsort
		wide := verbStream(r, 4)
		for j := range wide {
			var rec record
			w := 4 + r.intn(28)
			for k := 0; k < w; k++ {
				rec = append(rec, field{r.pick([]string{"a", "b", "c", "x"}) + strconv.Itoa(k), r.pick([]string{"1", "2", "pan"})})
			}
			wide[j] = rec
		}
		rx := r.pick([]string{"^a", "^b,^a", "^[ab],x", "\"^A\"i,^c", "1$,^a", "^b,^a,^c", "[0-9][0-9],^a", "^x|^c,^b"})
		for _, st := range [][]record{rs, wide} {
			emit([]string{"cut", "-r", "-f", rx}, st)
			emit([]string{"cut", "-o", "-r", "-f", rx}, st)
			emit([]string{"cut", "-x", "-r", "-f", rx}, st)
		}
		// field names containing the characters grouping keys are joined with
		var cn []record
		for j := r.intn(6); j > 0; j-- {
			var rec record
			seen := map[string]bool{}
			for k := 1 + r.intn(3); k > 0; k-- {
				nm := r.pick([]string{"a,b", "c", "a", "b,c", "c,", "q\\", "q", ",", "\\,"})
				if !seen[nm] {
					seen[nm] = true
					rec = append(rec, field{nm, r.pick([]string{"1", "2", "pan"})})
				}
			}
			cn = append(cn, rec)
		}
		emit([]string{"regularize"}, cn)
		emit([]string{"group-like"}, cn)
		emit([]string{"sort-within-records"}, cn)
		emit([]string{"unsparsify"}, cn)
		emit([]string{"cut", "-f", f}, rs)
		emit([]string{"cut", "-o", "-f", f}, rs)
		emit([]string{"cut", "-x", "-f", f}, rs)
		emit([]string{"reorder", "-f", f}, rs)
		emit([]string{"reorder", "-e", "-f", f}, rs)
		rn := r.pick([]string{"a,b", "a,a", "a,z", "a,b,b,a", "a,b,b,c", "a,c,b,a", "x,y,a,b", "nosuch,a", "a,b,a,c", "b,a,c,a", "a,b,c,b", "y,x,x,y"})
		emit([]string{"rename", rn}, rs)
		emit([]string{"rename", "a,z", "then", "rename", "z,a"}, rs)
		emit([]string{"label", r.pick([]string{"d", "d,e", "d,x,f", "a", "b,a", "p,q,r,s,t,u", "x", "c,b,a"})}, rs)
		emit([]string{"regularize"}, rs)
		emit([]string{"sort-within-records"}, rs)
		emit([]string{"sort-within-records", "-r"}, rs)
		emit([]string{"unsparsify"}, rs)
		emit([]string{"unsparsify", "--fill-with", "X"}, rs)
		emit([]string{"unsparsify", "-f", f}, rs)
		emit([]string{"unsparsify", "--fill-with", "X", "-f", "a,b", "-f", "z"}, rs)
		emit([]string{"sparsify"}, rs)
		emit([]string{"sparsify", "-s", "1"}, rs)
		emit([]string{"sparsify", "-f", f}, rs)
		emit([]string{"fill-empty"}, rs)
		emit([]string{"fill-empty", "-v", "X"}, rs)
		emit([]string{"template", "-f", f}, rs)
		emit([]string{"template", "-f", f, "--fill-with", "X"}, rs)
		emit([]string{"altkv"}, rs)
		emit([]string{"unsparsify", "then", "regularize", "then", "sort-within-records"}, rs)
	}
}
