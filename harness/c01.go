package main

import (
	"strconv"
	"strings"
)

func init() { families["c01"] = genC01 }

// cell alphabets: separators, quotes, backslashes, CR/LF, multi-byte, control characters
var c01Pieces = []string{"a", "b", "1", "x y", "", ",", ";", "\t", "\"", "\"\"", "\\", "\\t", "\\n", "\\.", "\n", "\r", "\r\n", "=", " ", "é", "日本", "\x01", "|", ":", "#", "-", "0x1F", "1e5", "+5", "007", "{}", "[]", "a,b", "a\"b", "'", "€"}

func c01Cell(r *rng, extra []string) string {
	if len(extra) > 6 && !r.chance(1, 12) { // tailored alphabet: stay mostly inside the domain
		return r.pick(extra) + r.pick([]string{"", "", r.pick(extra)})
	}
	n := 1 + r.intn(3)
	if r.chance(1, 8) {
		n = 0
	}
	var b strings.Builder
	for i := 0; i < n; i++ {
		if len(extra) > 0 && r.chance(1, 3) {
			b.WriteString(r.pick(extra))
		} else {
			b.WriteString(r.pick(c01Pieces))
		}
	}
	return b.String()
}

func c01Keys(r *rng, n int, extra []string, plain bool) []string {
	seen := map[string]bool{}
	var ks []string
	for len(ks) < n {
		var k string
		if plain || r.chance(2, 3) {
			k = r.pick([]string{"a", "b", "c", "x", "y", "id", "name", "k"}) + strings.Repeat("z", r.intn(3))
			if r.chance(1, 2) {
				k += digits(r, "0123456789", 1)
			}
		} else {
			k = c01Cell(r, extra)
		}
		if seen[k] {
			continue
		}
		seen[k] = true
		ks = append(ks, k)
	}
	return ks
}

// rectangular stream
func c01Rect(r *rng, extra []string, plainKeys bool) []record {
	nf := 1 + r.intn(4)
	if r.chance(1, 10) {
		nf = 12 + r.intn(6) // beyond the hash threshold
	}
	nr := 1 + r.intn(3)
	if r.chance(1, 12) {
		nr = 0
	}
	ks := c01Keys(r, nf, extra, plainKeys)
	var rs []record
	for i := 0; i < nr; i++ {
		var rec record
		for _, k := range ks {
			rec = append(rec, field{k, c01Cell(r, extra)})
		}
		rs = append(rs, rec)
	}
	return rs
}

// heterogeneous stream (DKVP, JSON, XTAB, csvlite)
func c01Hetero(r *rng, extra []string) []record {
	nr := r.intn(4)
	var rs []record
	for i := 0; i < nr; i++ {
		nf := r.intn(5)
		ks := c01Keys(r, nf, extra, r.chance(1, 2))
		var rec record
		for _, k := range ks {
			rec = append(rec, field{k, c01Cell(r, extra)})
		}
		rs = append(rs, rec)
	}
	return rs
}

type c01Variant struct {
	w, r   []string
	rect   bool
	extra  []string
	plainK bool
}

var c01Variants = []c01Variant{
	{[]string{"--ocsv"}, []string{"--icsv"}, true, nil, false},
	{[]string{"--ocsv", "--quote-all"}, []string{"--icsv"}, true, nil, false},
	{[]string{"--ocsv", "--ors", "crlf"}, []string{"--icsv"}, true, nil, false},
	{[]string{"--ocsv", "--ofs", "semicolon"}, []string{"--icsv", "--ifs", "semicolon"}, true, nil, false},
	{[]string{"--ocsv", "--ofs", "tab"}, []string{"--icsv", "--ifs", "tab"}, true, nil, false},
	{[]string{"--ocsv", "--headerless-csv-output"}, []string{"--icsv", "--implicit-csv-header"}, true, nil, false},
	{[]string{"--otsv"}, []string{"--itsv"}, true, nil, false},
	{[]string{"--otsv", "--headerless-tsv-output"}, []string{"--itsv", "--implicit-tsv-header"}, true, nil, false},
	{[]string{"--odkvp"}, []string{"--idkvp"}, false, nil, false},
	{[]string{"--odkvp", "--ofs", "semicolon", "--ops", "colon"}, []string{"--idkvp", "--ifs", "semicolon", "--ips", "colon"}, false, nil, false},
	{[]string{"--odkvp", "--ofs", ";;", "--ops", "=>"}, []string{"--idkvp", "--ifs", ";;", "--ips", "=>"}, false, []string{";", "=", ">", ";;", "=>"}, false},
	{[]string{"--ojson"}, []string{"--ijson"}, false, nil, false},
	{[]string{"--ojson", "--jvstack"}, []string{"--ijson"}, false, nil, false},
	{[]string{"--ojson", "--no-jvstack"}, []string{"--ijson"}, false, nil, false},
	{[]string{"--ojsonl"}, []string{"--ijsonl"}, false, nil, false},
	{[]string{"--oxtab"}, []string{"--ixtab"}, false, []string{"a", "b", "c1", "xy", "1", "2.5", "é"}, true},
	{[]string{"--oxtab", "--ops", ": "}, []string{"--ixtab", "--ips", ": "}, false, []string{"a", "b", "c1", "xy", "1", "2.5", "é", ":1", "::1", ":-)", "x:y", ":"}, true},
	{[]string{"--oxtab", "--ops", "→"}, []string{"--ixtab", "--ips", "→"}, false, []string{"a", "b", "c1", "xy", "1", "2.5", "é", "1é", "éé"}, true},
	{[]string{"--opprint"}, []string{"--ipprint"}, false, []string{"a", "b", "c1", "xy", "1", "2.5", "é", "-", ""}, true},
	{[]string{"--opprint", "--barred"}, []string{"--ipprint", "--barred-input"}, false, []string{"a", "b", "c1", "xy", "1", "2.5", "é", ""}, true},
	{[]string{"--opprint", "--right"}, []string{"--ipprint"}, false, []string{"a", "b", "c1", "xy", "1", "2.5", "é", ""}, true},
	{[]string{"--omd"}, []string{"--imd"}, true, []string{"a", "b", "c1", "xy", "1", "2.5", "é", "x y"}, true},
	{[]string{"--ocsvlite"}, []string{"--icsvlite"}, false, nil, false},
}

// nidx needs keys 1..n
func c01Nidx(r *rng) []record {
	nr := r.intn(4)
	var rs []record
	for i := 0; i < nr; i++ {
		nf := 1 + r.intn(5)
		var rec record
		for j := 0; j < nf; j++ {
			v := r.pick([]string{"a", "b", "xy", "1", "2.5", "é", "x=y", ",", "-", "\\"}) + r.pick([]string{"", "z", "0"})
			if r.chance(1, 15) {
				v = c01Cell(r, nil)
			}
			rec = append(rec, field{strconv.Itoa(j + 1), v})
		}
		rs = append(rs, rec)
	}
	return rs
}

func genC01(r *rng, thorough bool) {
	n := 400
	if thorough {
		n = 12000
	}
	for _, v := range c01Variants {
		for i := 0; i < n; i++ {
			var rs []record
			if v.rect {
				rs = c01Rect(r, v.extra, v.plainK)
			} else {
				rs = c01Hetero(r, v.extra)
			}
			gen("rt " + joinFlags(v.w) + " " + joinFlags(v.r) + " " + encodeRecords(rs))
		}
	}
	for i := 0; i < n; i++ {
		gen("rt " + joinFlags([]string{"--onidx"}) + " " + joinFlags([]string{"--inidx"}) + " " + encodeRecords(c01Nidx(r)))
	}
	// text a standard CSV writer produces in any legal quoting style (cells may be quoted needlessly)
	for i := 0; i < n; i++ {
		rs := c01Rect(r, nil, false)
		gen("style " + strconv.FormatUint(r.next(), 10) + " " + strconv.Itoa(r.intn(2)) + " " + encodeRecords(rs))
	}
	// readers alone on text in legal-but-different quoting styles and on malformed text
	texts := []string{"a,b\n1,2\n", "a,b\r\n1,2\r\n", "\"a\",\"b\"\n\"1\",\"2\"\n", "a,b\n\"x\ny\",2\n", "a,b\n1,2", "a,b\n1,2\r", "\xef\xbb\xbfa,b\n1,2\n", "a,b\n\"1\"\"2\",3\n", "a,b\n1\n", "a,b\n1,2,3\n", "a,b\nx\"y,3\n", "a,b\n\"xy\"z,3\n", "a,b\n\"xyz,3\n", "a,a\n1,2\n", "a\n\n", "\n", "", "a,b\n\n1,2\n", "a,b\n\"\",\"\"\n", "a,b\n1,\"2\"\r\n\"3\",4\r\n", "a,b\n\"1\r\n2\",3\n", "a,b\r\r\n1,2\n"}
	for _, t := range texts {
		gen("rd " + joinFlags([]string{"--icsv"}) + " " + hx(t))
		gen("rd " + joinFlags([]string{"--icsv", "--allow-ragged-csv-input"}) + " " + hx(t))
		gen("rd " + joinFlags([]string{"--icsv", "--implicit-csv-header"}) + " " + hx(t))
		tt := strings.ReplaceAll(t, ",", "\t")
		gen("rd " + joinFlags([]string{"--itsv"}) + " " + hx(tt))
		gen("rd " + joinFlags([]string{"--idkvp"}) + " " + hx(t))
	}
	// random mutations of valid CSV/TSV/DKVP text
	nm := 300
	if thorough {
		nm = 8000
	}
	for i := 0; i < nm; i++ {
		base := []byte(r.pick(texts))
		for k := 0; k < 1+r.intn(3) && len(base) > 0; k++ {
			pos := r.intn(len(base))
			switch r.intn(3) {
			case 0:
				base[pos] = []byte("\",\n\r\t\\a=")[r.intn(8)]
			case 1:
				base = append(base[:pos], base[pos+1:]...)
			default:
				base = append(base[:pos], append([]byte{[]byte("\",\n\r\t\\a=")[r.intn(8)]}, base[pos:]...)...)
			}
		}
		t := string(base)
		gen("rd " + joinFlags([]string{"--icsv"}) + " " + hx(t))
		gen("rd " + joinFlags([]string{"--itsv"}) + " " + hx(strings.ReplaceAll(t, ",", "\t")))
		gen("rd " + joinFlags([]string{"--idkvp"}) + " " + hx(t))
	}
}
