package main

import (
	"os"
	"path/filepath"
	"sort"
	"strconv"
	"strings"

	"github.com/johnkerl/miller/v6/pkg/output"
	"github.com/johnkerl/miller/v6/pkg/types"
)

func init() {
	// fanout <w|a> <csv|dkvp|json> <pre> <t:v,t:v,...>  =>  t=<hex file bytes>;... (targets in index order) | err
	// Drives the real MultiOutputHandlerManager: one WriteRecordAndContext per (target, value), then Close.
	// pre = number of targets (0..pre-1) whose file exists beforehand, holding one document with the
	// record k=old,v=0 written by the real writer.
	ops["fanout"] = func(a []string) string {
		appendMode := a[0] == "a"
		format := a[1]
		pre, _ := strconv.Atoi(a[2])
		dir, err := os.MkdirTemp(scratch(), "fan")
		if err != nil {
			return "err"
		}
		defer os.RemoveAll(dir)
		options, err := parseOptions([]string{"--o" + format})
		if err != nil {
			return "err"
		}
		name := func(t int) string { return filepath.Join(dir, "f"+strconv.Itoa(t)) }
		targets := map[int]bool{}
		for t := 0; t < pre; t++ {
			text, err := writeRecords([]string{"--o" + format}, []record{{{"k", "old"}, {"v", "0"}}})
			if err != nil {
				return "err"
			}
			if err := os.WriteFile(name(t), []byte(text), 0o644); err != nil {
				return "err"
			}
			targets[t] = true
		}
		mgr := output.NewFileOutputHandlerManager(&options.WriterOptions, appendMode)
		ctx := types.NewContext()
		if a[3] != "-" {
			for _, w := range strings.Split(a[3], ",") {
				tv := strings.SplitN(w, ":", 2)
				t, _ := strconv.Atoi(tv[0])
				targets[t] = true
				rec := toMlrmap(record{{"k", "t" + tv[0]}, {"v", tv[1]}})
				if err := mgr.WriteRecordAndContext(types.NewRecordAndContext(rec, ctx), name(t)); err != nil {
					return "err"
				}
			}
		}
		if errs := mgr.Close(); len(errs) > 0 {
			return "err"
		}
		var idx []int
		for t := range targets {
			idx = append(idx, t)
		}
		sort.Ints(idx)
		var parts []string
		for _, t := range idx {
			b, err := os.ReadFile(name(t))
			if err != nil {
				return "err"
			}
			parts = append(parts, strconv.Itoa(t)+"="+hx(string(b)))
		}
		if len(parts) == 0 {
			return "-"
		}
		return strings.Join(parts, ";")
	}
	families["c20"] = genC20
}

func genC20(r *rng, thorough bool) {
	n := 300
	big := 6
	if thorough {
		n = 6000
		big = 120
	}
	emit := func(nt int, length int, revisit func(i int) int) {
		var ws []string
		for i := 0; i < length; i++ {
			ws = append(ws, strconv.Itoa(revisit(i))+":"+strconv.Itoa(i+1))
		}
		hist := "-"
		if len(ws) > 0 {
			hist = strings.Join(ws, ",")
		}
		mode := r.pick([]string{"w", "w", "a"})
		pre := r.pick([]string{"0", "0", "1", "2"})
		gen("fanout " + mode + " " + r.pick([]string{"csv", "dkvp", "json"}) + " " + pre + " " + hist)
	}
	// few targets, arbitrary revisit patterns
	for i := 0; i < n; i++ {
		nt := 1 + r.intn(5)
		emit(nt, r.intn(12), func(int) int { return r.intn(nt) })
	}
	// a target evicted more than once: three and four full sweeps just beyond the capacity
	emit(257, 3*257, func(i int) int { return i % 257 })
	emit(258, 4*258+5, func(i int) int { return i % 258 })
	emit(300, 1500, func(int) int { return r.intn(300) })
	// around and beyond the handle-cache capacity (256): sweeps, revisits after long gaps
	for i := 0; i < big; i++ {
		nt := r.pick([]string{"255", "256", "257", "258", "300"})
		k, _ := strconv.Atoi(nt)
		switch r.intn(4) {
		case 0: // one sweep, then revisit the first few
			emit(k, k+3, func(i int) int {
				if i < k {
					return i
				}
				return i - k
			})
		case 1: // two full sweeps
			emit(k, 2*k, func(i int) int { return i % k })
		case 2: // sweep with a hot target touched throughout (never evicted), then revisit the coldest
			emit(k, 2*k+2, func(i int) int {
				if i >= 2*k {
					return 1 + (i - 2*k)
				}
				if i%2 == 0 {
					return 0
				}
				return 1 + (i/2)%(k-1)
			})
		case 3: // random over many targets, long enough for repeated evictions
			emit(k, 400+r.intn(1200), func(int) int { return r.intn(k) })
		}
	}
}
