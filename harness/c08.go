package main

import (
	"sort"

	"github.com/johnkerl/miller/v6/pkg/bifs"
	"github.com/johnkerl/miller/v6/pkg/mlrval"
)

func init() {
	ops["bin8"] = ops["bin7"]
	ops["un8"] = ops["un7"]
	ops["comm8"] = func(a []string) string {
		f := binaryBIFs[a[0]]
		r1 := guard(func() string { return encodeVal(f(decodeVal(a[1]), decodeVal(a[2]))) })
		r2 := guard(func() string { return encodeVal(f(decodeVal(a[2]), decodeVal(a[1]))) })
		return r1 + " " + r2
	}
	ops["nary8"] = func(a []string) string {
		f := bifs.BIF_min_variadic
		if a[0] == "max" {
			f = bifs.BIF_max_variadic
		}
		run := func(rev bool) string {
			return guard(func() string {
				var vs []*mlrval.Mlrval
				for _, s := range a[1:] {
					vs = append(vs, decodeVal(s))
				}
				if rev {
					for i, j := 0, len(vs)-1; i < j; i, j = i+1, j-1 {
						vs[i], vs[j] = vs[j], vs[i]
					}
				}
				return encodeVal(f(vs))
			})
		}
		return run(false) + " " + run(true)
	}
	families["c08"] = genC08
}

// representatives of every operand kind (two for the numeric and string kinds)
var kindReps = []string{"i:5", "i:-3", "i:0", "f:4004000000000000", "f:bff8000000000000", "b:true", "b:false", "v", "s:616263", "s:35", "y", "a", "m", "fn", "e", "n", "x"}

var commutativeTables = []string{"bifs.plus_dispositions", "bifs.times_dispositions", "bifs.dot_plus_dispositions", "bifs.dottimes_dispositions", "bifs.bitwise_and_dispositions", "bifs.bitwise_or_dispositions", "bifs.bitwise_xor_dispositions", "bifs.min_dispositions", "bifs.max_dispositions", "bifs.eq_dispositions", "bifs.ne_dispositions"}

func genC08(r *rng, thorough bool) {
	var tables []string
	for t := range binaryBIFs {
		tables = append(tables, t)
	}
	sort.Strings(tables)
	for _, t := range tables {
		for _, a := range kindReps {
			for _, b := range kindReps {
				gen("bin8 " + t + " " + a + " " + b)
			}
		}
	}
	for _, t := range commutativeTables {
		for _, a := range kindReps {
			for _, b := range kindReps {
				gen("comm8 " + t + " " + a + " " + b)
			}
		}
	}
	for _, f := range []string{"min", "max"} {
		for _, a := range kindReps {
			gen("nary8 " + f + " " + a)
			for _, b := range kindReps {
				gen("nary8 " + f + " " + a + " " + b)
			}
		}
		n := 300
		if thorough {
			n = 6000
		}
		for i := 0; i < n; i++ {
			line := "nary8 " + f
			for k := 3 + r.intn(3); k > 0; k-- {
				line += " " + kindReps[r.intn(len(kindReps))]
			}
			gen(line)
		}
	}
	var ut []string
	for t := range unaryBIFs {
		ut = append(ut, t)
	}
	sort.Strings(ut)
	for _, t := range ut {
		for _, a := range kindReps {
			gen("un8 " + t + " " + a)
		}
	}
}
