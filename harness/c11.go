package main

import (
	"strconv"
)

func init() { families["c11"] = genC11 }

// record streams for verb checks: few distinct keys and values so that groups repeat
func verbStream(r *rng, maxN int) []record {
	n := r.intn(maxN + 1)
	var rs []record
	names := []string{"a", "b", "c", "x", "y"}
	for i := 0; i < n; i++ {
		var rec record
		seen := map[string]bool{}
		nf := r.intn(5)
		if r.chance(1, 20) {
			nf = 13 + r.intn(3)
		}
		for j := 0; j < nf; j++ {
			k := names[r.intn(len(names))]
			if nf > 5 {
				k = "f" + strconv.Itoa(j)
			}
			if seen[k] {
				continue
			}
			seen[k] = true
			v := r.pick([]string{"1", "2", "3", "pan", "wye", "", "0x1", "1.0", "a,b", "-5", "10", "x,y", "x", "y,z", "z", "q\\", "q"})
			rec = append(rec, field{k, v})
		}
		rs = append(rs, rec)
	}
	return rs
}

func genC11(r *rng, thorough bool) {
	n := 150
	if thorough {
		n = 4000
	}
	gl := []string{"a", "b", "a,b", "b,a", "x", "nosuch", "a,nosuch"}
	emit := func(argv []string, rs []record) {
		gen("verbs " + joinFlags(argv) + " " + encodeRecords(rs))
		gen("verbsx " + joinFlags(argv) + " " + encodeRecords(rs))
	}
	for i := 0; i < n; i++ {
		rs := verbStream(r, 12)
		N := len(rs)
		counts := []int{0, 1, 2, N - 1, N, N + 1, 3}
		k := counts[r.intn(len(counts))]
		if k < 0 {
			k = 0
		}
		ks := strconv.Itoa(k)
		g := r.pick(gl)
		emit([]string{"head", "-n", ks}, rs)
		emit([]string{"head", "-n", ks, "-g", g}, rs)
		emit([]string{"head", "-n", "-" + ks}, rs)
		emit([]string{"head", "-n", "-" + ks, "-g", g}, rs)
		emit([]string{"tail", "-n", ks}, rs)
		emit([]string{"tail", "-n", ks, "-g", g}, rs)
		emit([]string{"tail", "-n", "+" + strconv.Itoa(k+1)}, rs)
		emit([]string{"tail", "-n", "+" + strconv.Itoa(k+1), "-g", g}, rs)
		emit([]string{"tail", "-n", "+0"}, rs)
		if k > 0 {
			emit([]string{"decimate", "-n", ks}, rs)
			emit([]string{"decimate", "-n", ks, "-b"}, rs)
			emit([]string{"decimate", "-n", ks, "-e", "-g", g}, rs)
			emit([]string{"decimate", "-n", ks, "-b", "-g", g}, rs)
		}
		emit([]string{"tac"}, rs)
		emit([]string{"tac", "then", "tac"}, rs)
		emit([]string{"group-by", g}, rs)
		emit([]string{"group-like"}, rs)
		emit([]string{"uniq", "-a"}, rs)
		emit([]string{"skip-trivial-records"}, rs)
		emit([]string{"nothing"}, rs)
		emit([]string{"cat"}, rs)
		emit([]string{"cat", "-n"}, rs)
		emit([]string{"cat", "-n", "-g", g}, rs)
		emit([]string{"cat", "-N", "idx", "-g", g}, rs)
		emit([]string{"cat", "-N", "a"}, rs)
		emit([]string{"having-fields", "--at-least", g}, rs)
		emit([]string{"having-fields", "--which-are", g}, rs)
		emit([]string{"having-fields", "--at-most", g}, rs)
		emit([]string{"having-fields", "--at-least", "a,a"}, rs)
		emit([]string{"having-fields", "--any-matching", "^[ab]"}, rs)
		emit([]string{"having-fields", "--all-matching", "^[abc]"}, rs)
		emit([]string{"having-fields", "--none-matching", "^[ab]"}, rs)
		emit([]string{"head", "-n", ks, "then", "tail", "-n", "1"}, rs)
		emit([]string{"group-by", g, "then", "head", "-n", "1", "-g", g}, rs)
		// randomized verbs: only membership / permutation laws are checked (spec on impl)
		emit([]string{"shuffle"}, rs)
		emit([]string{"bootstrap"}, rs)
		emit([]string{"sample", "-k", ks}, rs)
		emit([]string{"sample", "-k", ks, "-g", g}, rs)
		pairOp := func(a, b []string) { gen("pair " + joinFlags(a) + " " + joinFlags(b) + " " + encodeRecords(rs)) }
		pairOp([]string{"grep", "pan"}, []string{"grep", "-v", "pan"})
		pairOp([]string{"grep", "-i", "PAN"}, []string{"grep", "-i", "-v", "PAN"})
		pairOp([]string{"filter", "$a == 1"}, []string{"filter", "-x", "$a == 1"})
		pairOp([]string{"filter", "is_present($b) && $b > 1"}, []string{"filter", "-x", "is_present($b) && $b > 1"})
		pairOp([]string{"filter", "$x =~ \"^[0-9]+$\""}, []string{"filter", "-x", "$x =~ \"^[0-9]+$\""})
		pairOp([]string{"filter", "$nosuch"}, []string{"filter", "-x", "$nosuch"})
		pairOp([]string{"filter", "is_absent($a) || $a < $b"}, []string{"filter", "-x", "is_absent($a) || $a < $b"})
		pairOp([]string{"head", "-n", ks}, []string{"tail", "-n", "+" + strconv.Itoa(k+1)})
		emit([]string{"grep", "pan"}, rs)
		emit([]string{"grep", "-v", "pan"}, rs)
		emit([]string{"grep", "-i", "PAN"}, rs)
		emit([]string{"filter", "$a == 1"}, rs)
		emit([]string{"filter", "-x", "$a == 1"}, rs)
		emit([]string{"filter", "is_present($b) && $b > 1"}, rs)
		emit([]string{"filter", "-x", "is_present($b) && $b > 1"}, rs)
	}
}
