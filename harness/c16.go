package main

import (
	"math"
	"strconv"
	"strings"

	"github.com/johnkerl/miller/v6/pkg/bifs"
	"github.com/johnkerl/miller/v6/pkg/mlrval"
)

func init() {
	// tm <fn> <arg>: the real time functions on one argument (ints as decimal text, texts hex)
	ops["tm"] = func(a []string) string {
		return guard(func() string {
			switch a[0] {
			case "sec2gmt":
				n, _ := strconv.ParseInt(a[1], 10, 64)
				return hx(bifs.BIF_sec2gmt_unary(mlrval.FromInt(n)).String())
			case "sec2gmtdate":
				n, _ := strconv.ParseInt(a[1], 10, 64)
				return hx(bifs.BIF_sec2gmtdate(mlrval.FromInt(n)).String())
			case "gmt2sec":
				return bifs.BIF_gmt2sec(mlrval.FromString(unhx(a[1]))).String()
			case "sec2dhms":
				n, _ := strconv.ParseInt(a[1], 10, 64)
				return hx(bifs.BIF_sec2dhms(mlrval.FromInt(n)).String())
			case "sec2hms":
				n, _ := strconv.ParseInt(a[1], 10, 64)
				return hx(bifs.BIF_sec2hms(mlrval.FromInt(n)).String())
			case "dhms2sec":
				return bifs.BIF_dhms2sec(mlrval.FromString(unhx(a[1]))).String()
			case "hms2sec":
				return bifs.BIF_hms2sec(mlrval.FromString(unhx(a[1]))).String()
			}
			return "badfn"
		})
	}
	// tmrt <kind> <args...>: round-trip and consistency laws evaluated on the implementation
	ops["tmrt"] = func(a []string) string {
		return guard(func() string {
			switch a[0] {
			case "strf": // strptime(strftime(t, f), f) == t      args: t(int) fmt(hex)
				n, _ := strconv.ParseInt(a[1], 10, 64)
				f := mlrval.FromString(unhx(a[2]))
				txt := bifs.BIF_strftime(mlrval.FromInt(n), f)
				back := bifs.BIF_strptime(txt, f)
				return hx(txt.String()) + " " + back.String()
			case "strfn": // nanosecond variant
				n, _ := strconv.ParseInt(a[1], 10, 64)
				f := mlrval.FromString(unhx(a[2]))
				txt := bifs.BIF_strfntime(mlrval.FromInt(n), f)
				back := bifs.BIF_strpntime(txt, f)
				return hx(txt.String()) + " " + back.String()
			case "strfl": // local: args t fmt zone
				n, _ := strconv.ParseInt(a[1], 10, 64)
				f := mlrval.FromString(unhx(a[2]))
				z := mlrval.FromString(unhx(a[3]))
				txt := bifs.BIF_strftime_local_ternary(mlrval.FromInt(n), f, z)
				back := bifs.BIF_strptime_local_ternary(txt, f, z)
				gm := bifs.BIF_sec2gmt_unary(mlrval.FromInt(n))
				// the text of the instant parsed back: equal texts with different instants = a DST overlap
				again := bifs.BIF_strftime_local_ternary(back, f, z)
				return hx(txt.String()) + " " + back.String() + " " + hx(gm.String()) + " " + hx(again.String())
			case "fdhms": // fsec2dhms / dhms2fsec, fsec2hms / hms2fsec to 1e-6; arg: float text
				x, _ := strconv.ParseFloat(a[1], 64)
				d := bifs.BIF_fsec2dhms(mlrval.FromFloat(x))
				b1 := bifs.BIF_dhms2fsec(d)
				h := bifs.BIF_fsec2hms(mlrval.FromFloat(x))
				b2 := bifs.BIF_hms2fsec(h)
				ok := func(b *mlrval.Mlrval) string {
					f, isf := b.GetNumericToFloatValue()
					if !isf {
						return "nonnum"
					}
					if math.Abs(f-x) <= 1e-6*math.Max(1, math.Abs(x))+1e-6 {
						return "ok"
					}
					return "off:" + b.String()
				}
				return hx(d.String()) + " " + ok(b1) + " " + hx(h.String()) + " " + ok(b2)
			case "decimals": // sec2gmt with n decimals: args: float text, n
				x, _ := strconv.ParseFloat(a[1], 64)
				k, _ := strconv.ParseInt(a[2], 10, 64)
				return hx(bifs.BIF_sec2gmt_binary(mlrval.FromFloat(x), mlrval.FromInt(k)).String())
			}
			return "badkind"
		})
	}
	families["c16"] = genC16
}

func genC16(r *rng, thorough bool) {
	n := 3000
	if thorough {
		n = 60000
	}
	var ts []int64
	// dense around: the epoch, leap days, year ends, century rules, the range limits
	anchors := []int64{0, 951782400 /*2000-02-29*/, 68169600 /*1972-02-29*/, -2203891200 /*1900-03-01*/, 4107542400 /*2100-03-01*/, 1709164800, /*2024-02-29*/
		946684800 /*2000-01-01*/, 978307200, 1704067200, -62135596800 /*0001-01-01*/, 253402300799 /*9999-12-31T23:59:59*/, -12219292800 /*1582-10-15*/,
		-11644473600 /*1601-01-01*/, 2147483647, 2147483648, -2147483648, 4102444800 /*2100-01-01*/, 13569465600 /*2400-01-01*/, 13574563200 /*2400-02-29*/,
		-59011459200 /*0100-01-01*/, -59006361600 /*0100-03-01*/, -49544352000 /*0400-01-01*/, -49539254400 /*0400-02-29*/}
	for _, a := range anchors {
		for _, d := range []int64{-86401, -86400, -86399, -3601, -3600, -61, -60, -2, -1, 0, 1, 2, 59, 60, 61, 3599, 3600, 86399, 86400, 86401} {
			ts = append(ts, a+d)
		}
	}
	for i := 0; i < n; i++ {
		switch r.intn(4) {
		case 0:
			ts = append(ts, int64(r.next()%315537897600)-62135596800)
		case 1: // a random year end / leap-day neighbourhood
			y := int64(1 + r.intn(9999))
			days := (y-1)*365 + (y-1)/4 - (y-1)/100 + (y-1)/400
			ts = append(ts, (days-719162)*86400+int64(r.intn(3))*86400-86400+int64(r.intn(86400)))
		case 2:
			ts = append(ts, int64(r.next()%4000000000)-2000000000)
		case 3:
			ts = append(ts, anchors[r.intn(len(anchors))]+int64(r.intn(200000))-100000)
		}
	}
	for _, t := range ts {
		if t < -62135596800 || t > 253402300799 {
			continue
		}
		s := strconv.FormatInt(t, 10)
		gen("tm sec2gmt " + s)
		gen("tm sec2gmtdate " + s)
	}
	// gmt2sec on canonical texts (via the implementation's own sec2gmt is C16's round trip; here also direct texts)
	for _, txt := range []string{"1970-01-01T00:00:00Z", "2000-02-29T23:59:59Z", "1900-02-28T12:00:00Z", "0001-01-01T00:00:00Z", "9999-12-31T23:59:59Z", "2024-12-31T23:59:59Z",
		"2023-02-29T00:00:00Z", "2023-13-01T00:00:00Z", "2023-00-10T00:00:00Z", "2023-04-31T00:00:00Z", "1900-02-29T00:00:00Z", "2100-02-29T00:00:00Z", "2400-02-29T00:00:00Z",
		"2023-01-01T24:00:00Z", "2023-01-01T23:60:00Z", "2023-01-01T23:59:60Z", "2023-01-01T00:00:00", "20230101T000000Z", "2023-1-1T00:00:00Z", "", "abc"} {
		gen("tm gmt2sec " + hx(txt))
	}
	for i := 0; i < n/3; i++ {
		t := int64(r.next()%315537897600) - 62135596800
		// the canonical text of a random instant, built independently of Miller
		gen("tm gmt2sec " + hx(goCanonical(t)))
	}
	// d/h/m/s on all magnitudes incl. negatives and unit boundaries
	var us []int64
	for _, b := range []int64{0, 1, 59, 60, 61, 3599, 3600, 3601, 86399, 86400, 86401, 90061, 359999, 360000, 8639999, 8640000, 1000000000, 9223372036854775807, 9223372036854775806} {
		us = append(us, b, -b)
	}
	for i := 0; i < n/2; i++ {
		us = append(us, int64(r.next()>>uint(r.intn(63)))*int64(1-2*r.intn(2)))
	}
	for _, u := range us {
		s := strconv.FormatInt(u, 10)
		gen("tm sec2dhms " + s)
		gen("tm sec2hms " + s)
	}
	for _, txt := range []string{"1d02h03m04s", "-1d02h03m04s", "4s", "0s", "5m", "1h", "1d", "1d1s", "01h", "1x", "s", "1", "", "-", "--1s", "1s2m", "1d-2h", "999999999999d", "1.5s", " 1s", "1s "} {
		gen("tm dhms2sec " + hx(txt))
	}
	for _, txt := range []string{"01:02:03", "-01:02:03", "00:00:00", "100:00:00", "1:2:3", "01:02", "a:b:c", "", "-", "01:02:03:04", "-00:00:05"} {
		gen("tm hms2sec " + hx(txt))
	}
	// laws on the implementation: strptime∘strftime, local zones, fractional d/h/m/s, decimals
	fmts := []string{"%Y-%m-%dT%H:%M:%SZ", "%Y-%m-%d %H:%M:%S", "%Y%m%d%H%M%S", "%s", "%Y-%j %H:%M:%S", "%d/%m/%Y %H.%M.%S", "%Y-%m-%dT%H:%M:%3SZ", "%Y-%m-%dT%H:%M:%6SZ", "%Y-%m-%dT%H:%M:%9SZ", "%b %d %Y %H:%M:%S", "%A %B %d %Y %I:%M:%S %p"}
	zones := []string{"Asia/Istanbul", "America/Sao_Paulo", "America/New_York", "Asia/Kolkata", "Australia/Lord_Howe", "Europe/London", "Pacific/Apia", "Asia/Kathmandu", "UTC", "America/St_Johns"}
	for i := 0; i < n/4; i++ {
		t := ts[r.intn(len(ts))]
		if t < -62135596800 || t > 253402300799 {
			continue
		}
		f := fmts[r.intn(len(fmts))]
		gen("tmrt strf " + strconv.FormatInt(t, 10) + " " + hx(f))
		if t > -9000000000 && t < 9000000000 {
			gen("tmrt strfn " + strconv.FormatInt(t*1000000000+int64(r.intn(1000000000)), 10) + " " + hx(f))
			gen("tmrt strfl " + strconv.FormatInt(t, 10) + " " + hx(fmts[r.intn(3)]) + " " + hx(zones[r.intn(len(zones))]))
		}
		x := float64(int64(r.next()%2000000000)-1000000000) + float64(r.intn(1000000))/1e6
		gen("tmrt fdhms " + strconv.FormatFloat(x, 'f', 6, 64))
		gen("tmrt decimals " + strconv.FormatFloat(float64(t%4000000000)+float64(r.intn(1000))/1000, 'f', 3, 64) + " " + strconv.Itoa(r.intn(10)))
	}
}

// goCanonical renders t as YYYY-MM-DDTHH:MM:SSZ by plain day counting (independent of Miller and of the Lean model).
func goCanonical(t int64) string {
	s := t + 62135596800
	days := s / 86400
	sod := s % 86400
	y := int64(1)
	leap := func(y int64) bool { return (y%4 == 0 && y%100 != 0) || y%400 == 0 }
	for {
		yl := int64(365)
		if leap(y) {
			yl = 366
		}
		if days < yl {
			break
		}
		days -= yl
		y++
	}
	ml := []int64{31, 28, 31, 30, 31, 30, 31, 31, 30, 31, 30, 31}
	if leap(y) {
		ml[1] = 29
	}
	m := 0
	for days >= ml[m] {
		days -= ml[m]
		m++
	}
	p := func(n int64, w int) string {
		s := strconv.FormatInt(n, 10)
		return strings.Repeat("0", w-len(s)) + s
	}
	return p(y, 4) + "-" + p(int64(m+1), 2) + "-" + p(days+1, 2) + "T" + p(sod/3600, 2) + ":" + p(sod/60%60, 2) + ":" + p(sod%60, 2) + "Z"
}
