package main

import (
	"regexp"
	"strconv"
	"strings"
)

func init() {
	// re <pattern> <subject> => "none" | "s,e,g1s,g1e,..." (-1 for unset groups) | "badre"
	ops["re"] = func(a []string) string {
		re, err := regexp.Compile(unhx(a[0]))
		if err != nil {
			return "badre"
		}
		ix := re.FindStringSubmatchIndex(unhx(a[1]))
		if ix == nil {
			return "none"
		}
		var ss []string
		for _, i := range ix {
			ss = append(ss, strconv.Itoa(i))
		}
		return strings.Join(ss, ",")
	}
	families["re"] = genRe
}

func genRegex(r *rng, depth int) string {
	atoms := []string{"a", "b", "c", "x", "1", ".", "[ab]", "[^a]", "[a-c]", "[0-9]", "\\d", "\\w", "\\.", "ab", "ba"}
	if depth <= 0 {
		return r.pick(atoms)
	}
	switch r.intn(9) {
	case 0:
		return genRegex(r, depth-1) + genRegex(r, depth-1)
	case 1:
		return genRegex(r, depth-1) + "|" + genRegex(r, depth-1)
	case 2:
		return "(" + genRegex(r, depth-1) + ")" + r.pick([]string{"", "*", "+", "?"})
	case 3:
		return r.pick(atoms) + r.pick([]string{"*", "+", "?", "*?", "+?", "??", "{2}", "{1,2}", "{2,}"})
	case 4:
		return "^" + genRegex(r, depth-1)
	case 5:
		return genRegex(r, depth-1) + "$"
	case 6:
		return "(?:" + genRegex(r, depth-1) + ")" + r.pick([]string{"", "*", "+"})
	default:
		return r.pick(atoms) + genRegex(r, depth-1)
	}
}

func genRe(r *rng, thorough bool) {
	n := 3000
	if thorough {
		n = 100000
	}
	for i := 0; i < n; i++ {
		p := genRegex(r, r.intn(4))
		s := digits(r, "aabbc1x.", r.intn(8))
		gen("re " + hx(p) + " " + hx(s))
	}
}
